#!/usr/bin/env python3
"""seedtool.py <worktree> <n> <property> <seed-id> [checks...]
Confirms a seeded change produced by a sub-agent (demo passes without / fails with the patch,
the repository's tests pass with it), runs the registered checks against it on /repo
(git apply ... ; checks ; git checkout -- .) and files it under /verif/seeded/<seed-id>/."""
import json, os, shutil, subprocess, sys, time

def sh(cmd, cwd=None, timeout=900):
    r = subprocess.run(cmd, shell=True, cwd=cwd, capture_output=True, text=True, timeout=timeout)
    return r.returncode, (r.stdout + r.stderr)

def main():
    wt, n, prop, sid = sys.argv[1:5]
    checks = sys.argv[5:] or [prop]
    src = os.path.join(wt, 'seeded_out', n)
    patch = os.path.join(src, 'patch.diff')
    res = {'property': prop, 'seed': sid, 'source': src}
    sh('git checkout -- .', wt)
    rc0, out0 = sh('bash %s/run.sh' % src, wt, 300)
    res['demo_without_patch_exit'] = rc0
    rc, out = sh('git apply %s' % patch, wt)
    if rc != 0:
        print('patch does not apply:', out); sys.exit(2)
    rc1, out1 = sh('bash %s/run.sh' % src, wt, 300)
    res['demo_with_patch_exit'] = rc1
    b = os.path.join(wt, '_bt')
    rcb, outb = sh("cmake -G Ninja -S %s -B %s -DCPP_UTILITY_BUILD_TESTS=ON -DFETCHCONTENT_SOURCE_DIR_GOOGLETEST=/usr/src/googletest -DCMAKE_BUILD_TYPE=RelWithDebInfo '-DDBGROUP_MAX_THREAD_NUM=(2 * 8)' >/dev/null && cmake --build %s -j16 2>&1 | tail -3 && ctest --test-dir %s -j8 --timeout 300 2>&1 | tail -4" % (wt, b, b, b), wt, 1500)
    res['tests_with_patch'] = 'pass' if (rcb == 0 and '100% tests passed' in outb) else 'FAIL'
    res['tests_tail'] = outb[-300:]
    sh('git checkout -- .', wt)
    shutil.rmtree(b, ignore_errors=True)
    # our checks, on a scratch copy of /repo with the patch applied (the final pass, seed_final.py,
    # applies every kept patch to /repo itself: git -C /repo apply; checks; git -C /repo checkout -- .)
    import tempfile
    sc = tempfile.mkdtemp(prefix='cppu-seed-')
    for item in ('CMakeLists.txt', 'include', 'src'):
        sp = os.path.join('/repo', item)
        (shutil.copytree if os.path.isdir(sp) else shutil.copy)(sp, os.path.join(sc, item))
    rc, out = sh('patch -p1 -d %s < %s' % (sc, patch))
    if rc != 0:
        # the seed was written against an older HEAD of /repo (before a later fix: commit): re-create it against the current HEAD
        shutil.rmtree(sc, ignore_errors=True)
        sc = tempfile.mkdtemp(prefix='cppu-seed-')
        for item in ('CMakeLists.txt', 'include', 'src'):
            sp = os.path.join('/repo', item)
            (shutil.copytree if os.path.isdir(sp) else shutil.copy)(sp, os.path.join(sc, item))
        rb = os.path.join(src, 'rebased')
        os.makedirs(rb, exist_ok=True)
        shutil.copy(patch, os.path.join(rb, 'patch.diff'))
        rcr, outr = sh('/verif/tools/rebase_patch.sh %s' % rb)
        rc, out = sh('patch -p1 -d %s < %s' % (sc, os.path.join(rb, 'patch.diff')))
        if rcr != 0 or rc != 0:
            print('patch does not apply to a copy of /repo:', out, outr); sys.exit(2)
        res['rebased'] = True
        patch = os.path.join(rb, 'patch.diff')
        shutil.copy(os.path.join(src, 'patch.diff'), os.path.join(src, 'patch.orig.diff'))
    res['checks'] = {}
    try:
        for c in checks:
            rcc, outc = sh('VERIF_NO_EVIDENCE=1 ./check %s --tier quick --repo %s' % (c, sc), '/verif', 600)
            lines = [l.replace(sc, '') for l in outc.splitlines() if l.startswith(('VIOLATION', '  ', 'ANALYSIS-BROKEN', 'OK', 'KNOWN'))]
            res['checks'][c] = {'exit': rcc, 'lines': lines[:8]}
    finally:
        shutil.rmtree(sc, ignore_errors=True)
    d = os.path.join('/verif/seeded', sid)
    os.makedirs(d, exist_ok=True)
    for f in ('patch.diff', 'demo.cpp', 'run.sh', 'notes.md'):
        if os.path.exists(os.path.join(src, f)):
            shutil.copy(os.path.join(src, f), os.path.join(d, f))
    if res.get('rebased'):
        shutil.copy(patch, os.path.join(d, 'patch.diff'))      # applies to the current /repo HEAD
        shutil.copy(os.path.join(src, 'patch.orig.diff'), os.path.join(d, 'patch.orig.diff'))   # as the agent wrote it (older HEAD)
    for f in os.listdir(src):
        if f not in ('patch.diff', 'demo.cpp', 'run.sh', 'notes.md') and os.path.isfile(os.path.join(src, f)) and os.path.getsize(os.path.join(src, f)) < 200000 and not os.access(os.path.join(src, f), os.X_OK):
            shutil.copy(os.path.join(src, f), os.path.join(d, f))
    confirmed = rc0 == 0 and rc1 != 0 and res['tests_with_patch'] == 'pass'
    meta = {'property': prop, 'breaks': open(os.path.join(src, 'notes.md')).read()[:1500] if os.path.exists(os.path.join(src, 'notes.md')) else '',
            'confirmed': confirmed, 'demo_exit_without_patch': rc0, 'demo_exit_with_patch': rc1, 'repository_tests_with_patch': res['tests_with_patch'],
            'ran': ['bash run.sh (unpatched worktree)', 'git apply patch.diff; bash run.sh', 'cmake+ninja+ctest with the patch', 'git -C /repo apply; ./check <ids>; git -C /repo checkout -- .'],
            'checks': res['checks'], 'detected_by': [c for c, v in res['checks'].items() if v['exit'] == 1]}
    json.dump(meta, open(os.path.join(d, 'meta.json'), 'w'), indent=1)
    print(json.dumps({k: v for k, v in meta.items() if k != 'breaks'}, indent=1))

main()
