// cxxfacts — libTooling fact extractor for the cpp-utility static checks (see DESIGN.md 2.1).
//
// For every translation unit given on the command line it writes one JSON file with
//   constants : namespace-scope / static-member constant integral variables, folded
//   globals   : other namespace-scope variables (type, storage, array extent)
//   records   : fields, static members, methods (const / defaulted / deleted / noexcept ...)
//   functions : every function, method, template instantiation and lambda body whose
//               definition lies under --root, with its clang CFG; each CFG element is an
//               expression tree in a small normal form, constant-evaluable subtrees folded.
// Nothing is executed; the deciding rules live in /verif/rules (Python).
//
// build: see tools/Makefile (links libclang-cpp.so.14 and libLLVM-14.so by path)

#include "clang/AST/ASTConsumer.h"
#include "clang/AST/ASTContext.h"
#include "clang/AST/ASTLambda.h"
#include "clang/AST/DeclCXX.h"
#include "clang/AST/DeclTemplate.h"
#include "clang/AST/ExprCXX.h"
#include "clang/AST/RecursiveASTVisitor.h"
#include "clang/Analysis/CFG.h"
#include "clang/Frontend/CompilerInstance.h"
#include "clang/Frontend/FrontendAction.h"
#include "clang/Tooling/CommonOptionsParser.h"
#include "clang/Tooling/Tooling.h"
#include "llvm/Support/CommandLine.h"
#include "llvm/Support/JSON.h"
#include "llvm/Support/raw_ostream.h"

#include <map>
#include <set>
#include <string>
#include <vector>

using namespace clang;
namespace json = llvm::json;

static llvm::cl::OptionCategory Cat("cxxfacts options");
static llvm::cl::opt<std::string> Root("root", llvm::cl::desc("only definitions under this path prefix"),
                                       llvm::cl::init("/repo"), llvm::cl::cat(Cat));
static llvm::cl::opt<std::string> OutDir("outdir", llvm::cl::desc("directory for <tu-basename>.json"),
                                         llvm::cl::Required, llvm::cl::cat(Cat));

namespace {

std::string apToString(const llvm::APSInt &V) { return llvm::toString(V, 10); }

class Extractor {
 public:
  explicit Extractor(ASTContext &C) : Ctx(C), SM(C.getSourceManager()), PP(C.getLangOpts()) {
    PP.SuppressTagKeyword = true;
    PP.Bool = true;
  }

  ASTContext &Ctx;
  const SourceManager &SM;
  PrintingPolicy PP;

  json::Array Constants, Globals, Records, Functions;
  std::set<std::string> SeenFn, SeenRec, SeenVar;
  std::map<const Decl *, int> DeclIds;

  // ---------------------------------------------------------------- locations
  std::string fileOf(SourceLocation L) const {
    if (L.isInvalid()) return "";
    PresumedLoc P = SM.getPresumedLoc(SM.getExpansionLoc(L));
    return P.isValid() ? std::string(P.getFilename()) : "";
  }
  unsigned lineOf(SourceLocation L) const {
    if (L.isInvalid()) return 0;
    PresumedLoc P = SM.getPresumedLoc(SM.getExpansionLoc(L));
    return P.isValid() ? P.getLine() : 0;
  }
  unsigned colOf(SourceLocation L) const {
    if (L.isInvalid()) return 0;
    PresumedLoc P = SM.getPresumedLoc(SM.getExpansionLoc(L));
    return P.isValid() ? P.getColumn() : 0;
  }
  bool inRoot(SourceLocation L) const {
    std::string F = fileOf(L);
    return !F.empty() && F.compare(0, Root.size(), Root) == 0;
  }
  std::string locStr(SourceLocation L) const {
    return fileOf(L) + ":" + std::to_string(lineOf(L));
  }
  std::string spell(const Stmt *S) const {
    if (!S) return "";
    SourceRange R = S->getSourceRange();
    if (R.isInvalid()) return "";
    CharSourceRange CR = CharSourceRange::getTokenRange(SM.getExpansionLoc(R.getBegin()),
                                                        SM.getExpansionLoc(R.getEnd()));
    bool Invalid = false;
    llvm::StringRef T = Lexer::getSourceText(CR, SM, Ctx.getLangOpts(), &Invalid);
    if (Invalid) return "";
    std::string Out;
    bool Sp = false;
    for (char c : T) {
      if (c == '\n' || c == '\t' || c == ' ') {
        Sp = true;
        continue;
      }
      if (Sp && !Out.empty()) Out.push_back(' ');
      Sp = false;
      Out.push_back(c);
      if (Out.size() > 200) break;
    }
    return Out;
  }

  int declId(const Decl *D) {
    D = D->getCanonicalDecl();
    auto It = DeclIds.find(D);
    if (It != DeclIds.end()) return It->second;
    int N = (int)DeclIds.size() + 1;
    DeclIds[D] = N;
    return N;
  }

  std::string typeStr(QualType T) const { return T.isNull() ? "" : T.getAsString(PP); }
  std::string canonStr(QualType T) const {
    return T.isNull() ? "" : T.getCanonicalType().getAsString(PP);
  }

  std::string recName(const CXXRecordDecl *RD) const {
    if (!RD) return "";
    std::string S;
    llvm::raw_string_ostream OS(S);
    RD->getNameForDiagnostic(OS, PP, /*Qualified=*/true);
    return OS.str();
  }

  std::string fnName(const FunctionDecl *FD) const {
    std::string S;
    llvm::raw_string_ostream OS(S);
    FD->getNameForDiagnostic(OS, PP, /*Qualified=*/true);
    return OS.str();
  }

  std::string fnKey(const FunctionDecl *FD) const {
    if (const auto *MD = dyn_cast<CXXMethodDecl>(FD)) {
      if (isLambdaCallOperator(MD)) {
        SourceLocation L = MD->getParent()->getLocation();
        return "lambda@" + fileOf(L) + ":" + std::to_string(lineOf(L)) + ":" + std::to_string(colOf(L)) +
               lambdaCtx(MD);
      }
    }
    std::string S = fnName(FD) + "(";
    bool First = true;
    for (const ParmVarDecl *P : FD->parameters()) {
      if (!First) S += ", ";
      First = false;
      // top-level cv-qualifiers of a parameter are not part of the signature
      S += canonStr(P->getType().getCanonicalType().getUnqualifiedType());
    }
    S += ")";
    if (const auto *MD = dyn_cast<CXXMethodDecl>(FD))
      if (MD->isConst()) S += " const";
    // a specialization over a closure type: clang names the type by its source location, which is the same for
    // every instantiation of the enclosing template; add the closure's own (instantiation-aware) key
    if (const auto *TA = FD->getTemplateSpecializationArgs()) {
      for (const TemplateArgument &A : TA->asArray()) {
        if (A.getKind() != TemplateArgument::Type) continue;
        const auto *RD = A.getAsType()->getAsCXXRecordDecl();
        if (RD && RD->isLambda())
          if (const CXXMethodDecl *Op = RD->getLambdaCallOperator()) {
            std::string Ctx = lambdaCtx(Op);
            if (!Ctx.empty()) S += " [closure" + Ctx + "]";
          }
      }
    }
    return S;
  }

  // lambdas inside template instantiations share a source location: disambiguate by the
  // enclosing function's key
  std::string lambdaCtx(const CXXMethodDecl *MD) const {
    const FunctionDecl *P = enclosingFn(MD);
    if (P && (P->isTemplateInstantiation() ||
              (isa<CXXMethodDecl>(P) &&
               isa<ClassTemplateSpecializationDecl>(cast<CXXMethodDecl>(P)->getParent()))))
      return " in " + fnKey(P);
    return "";
  }

  const FunctionDecl *enclosingFn(const CXXMethodDecl *LambdaOp) const {
    const DeclContext *DC = LambdaOp->getParent()->getDeclContext();
    while (DC && !isa<FunctionDecl>(DC)) DC = DC->getParent();
    return DC ? cast<FunctionDecl>(DC) : nullptr;
  }

  // ---------------------------------------------------------------- expression normal form
  struct FnCtx {
    std::map<const Stmt *, int> Ids;
    std::set<const Stmt *> Elems;
    int Next = 1;
  };
  FnCtx *F = nullptr;

  static const Stmt *strip(const Stmt *S) {
    while (S) {
      if (const auto *P = dyn_cast<ParenExpr>(S)) {
        S = P->getSubExpr();
      } else if (const auto *E = dyn_cast<ExprWithCleanups>(S)) {
        S = E->getSubExpr();
      } else if (const auto *M = dyn_cast<MaterializeTemporaryExpr>(S)) {
        S = M->getSubExpr();
      } else if (const auto *B = dyn_cast<CXXBindTemporaryExpr>(S)) {
        S = B->getSubExpr();
      } else if (const auto *C = dyn_cast<ConstantExpr>(S)) {
        S = C->getSubExpr();
      } else if (const auto *I = dyn_cast<CXXStdInitializerListExpr>(S)) {
        S = I->getSubExpr();
      } else if (const auto *SE = dyn_cast<SubstNonTypeTemplateParmExpr>(S)) {
        S = SE->getReplacement();
      } else if (const auto *RB = dyn_cast<CXXRewrittenBinaryOperator>(S)) {
        S = RB->getSemanticForm();     // C++20: a != b rewritten as !(a == b), a < b as (a <=> b) < 0, reversed operands
      } else if (const auto *IC = dyn_cast<ImplicitCastExpr>(S)) {
        switch (IC->getCastKind()) {
          case CK_NoOp:
          case CK_LValueToRValue:
          case CK_FunctionToPointerDecay:
          case CK_ArrayToPointerDecay:
          case CK_UserDefinedConversion:
          case CK_ConstructorConversion:
          case CK_DerivedToBase:
          case CK_UncheckedDerivedToBase:
          case CK_BuiltinFnToFnPtr:
            S = IC->getSubExpr();
            continue;
          default:
            return S;
        }
      } else if (const auto *FC = dyn_cast<CXXFunctionalCastExpr>(S)) {
        if (FC->getCastKind() == CK_ConstructorConversion || FC->getCastKind() == CK_NoOp) {
          S = FC->getSubExpr();
          continue;
        }
        return S;
      } else {
        return S;
      }
    }
    return S;
  }

  int sid(const Stmt *S) {
    S = strip(S);
    auto It = F->Ids.find(S);
    if (It != F->Ids.end()) return It->second;
    int N = F->Next++;
    F->Ids[S] = N;
    return N;
  }

  bool isElem(const Stmt *S) const {
    // S or any transparent wrapper of the same stripped statement is a CFG element
    const Stmt *T = strip(S);
    if (F->Elems.count(T)) return true;
    return false;
  }

  json::Value child(const Stmt *S) {
    if (!S) return nullptr;
    if (isElem(S)) {
      const Expr *E = dyn_cast<Expr>(strip(S));
      json::Object O{{"k", "ref"}, {"id", sid(S)}};
      // the unstripped node first: the lvalue-to-rvalue conversion of a constexpr variable folds, the bare reference does not
      const Expr *E0 = dyn_cast<Expr>(S);
      if (!(E0 && tryFold(E0, O)) && E) tryFold(E, O);
      return std::move(O);
    }
    return ser(S);
  }

  // if E is a side-effect free integral constant, record its value in O ("cv")
  bool tryFold(const Expr *E, json::Object &O) {
    if (!E || E->isValueDependent() || E->isTypeDependent()) return false;
    QualType T = E->getType();
    if (T.isNull() || !(T->isIntegralOrEnumerationType() || T->isNullPtrType())) return false;
    if (!E->isPRValue()) return false;
    if (T->isNullPtrType()) {
      O["cv"] = "0";
      return true;
    }
    Expr::EvalResult R;
    if (E->HasSideEffects(Ctx)) {
      // a call of a constexpr function with constant arguments is a constant (HasSideEffects is conservative for calls)
      const auto *CE = dyn_cast<CallExpr>(E->IgnoreParenImpCasts());
      const FunctionDecl *Callee = CE ? CE->getDirectCallee() : nullptr;
      if (!Callee || !Callee->isConstexpr() || isa<CXXMethodDecl>(Callee)) return false;
      if (!E->EvaluateAsInt(R, Ctx, Expr::SE_NoSideEffects) || R.HasSideEffects) return false;
      O["cv"] = apToString(R.Val.getInt());
      return true;
    }
    if (!E->EvaluateAsInt(R, Ctx, Expr::SE_NoSideEffects)) return false;
    O["cv"] = apToString(R.Val.getInt());
    return true;
  }

  json::Object typeInfo(QualType T) {
    json::Object O;
    O["t"] = typeStr(T);
    QualType C = T.getCanonicalType();
    if (C->isReferenceType()) C = C->getPointeeType().getCanonicalType();
    O["ct"] = C.getAsString(PP);
    if (!C->isDependentType() && !C->isIncompleteType() && !C->isFunctionType() && !C->isVoidType()) {
      if (C->isIntegralOrEnumerationType()) {
        O["bits"] = (int64_t)Ctx.getTypeSize(C);
        O["signed"] = C->isSignedIntegerOrEnumerationType();
      }
    }
    return O;
  }

  json::Value ser(const Stmt *S0) {
    if (!S0) return nullptr;
    const Stmt *S = strip(S0);
    json::Object O;
    O["id"] = sid(S);
    O["line"] = (int64_t)lineOf(S->getBeginLoc());

    if (const auto *E = dyn_cast<Expr>(S)) {
      // folded constant?  (try the unstripped node first: an lvalue-to-rvalue conversion of
      // a constexpr variable folds, the bare DeclRefExpr does not)
      json::Object Tmp;
      const Expr *E0 = dyn_cast<Expr>(S0);
      if (!isa<LambdaExpr>(E) && ((E0 && tryFold(E0, Tmp)) || tryFold(E, Tmp))) {
        O["k"] = "const";
        O["v"] = Tmp.getString("cv")->str();
        O["text"] = spell(E);
        json::Object TI = typeInfo(E->getType());
        for (auto &KV : TI) O[KV.first] = std::move(KV.second);
        return std::move(O);
      }
      O["type"] = typeStr(E->getType());
    }

    if (const auto *FL = dyn_cast<FloatingLiteral>(S)) {
      O["k"] = "fconst";
      O["v"] = FL->getValueAsApproximateDouble();
      O["text"] = spell(FL);
    } else if (const auto *SL = dyn_cast<StringLiteral>(S)) {
      O["k"] = "str";
      O["v"] = SL->getBytes().str();
    } else if (isa<CXXThisExpr>(S)) {
      O["k"] = "this";
    } else if (const auto *DR = dyn_cast<DeclRefExpr>(S)) {
      if (const auto *BD = dyn_cast<BindingDecl>(DR->getDecl())) {
        // structured binding: the name stands for an expression on the hidden decomposed variable
        if (const Expr *B = BD->getBinding()) return ser(B);
      }
      bool Folded = false;
      if (const auto *FV = dyn_cast<VarDecl>(DR->getDecl())) {
        // a floating-point constant with static storage (constexpr double kOne = 1.0;): its value, like a literal
        QualType FT = FV->getType();
        if (FV->hasGlobalStorage() && FT.isConstQualified() && FT->isFloatingType() && FV->hasInit() && !FV->getInit()->isValueDependent() &&
            FV->hasConstantInitialization()) {
          if (const APValue *V = FV->evaluateValue()) {
            if (V->isFloat()) {
              O["k"] = "fconst";
              O["v"] = V->getFloat().convertToDouble();
              O["text"] = FV->getNameAsString();
              Folded = true;
            }
          }
        }
      }
      if (!Folded) serDeclRef(DR, O);
    } else if (const auto *ME = dyn_cast<MemberExpr>(S)) {
      O["k"] = "member";
      O["name"] = ME->getMemberDecl()->getNameAsString();
      O["arrow"] = ME->isArrow();
      O["base"] = child(ME->getBase());
      if (const auto *FD = dyn_cast<FieldDecl>(ME->getMemberDecl())) {
        O["record"] = recName(dyn_cast<CXXRecordDecl>(FD->getParent()));
        json::Object TI = typeInfo(FD->getType());
        O["ftype"] = std::move(TI);
        O["mutable"] = FD->isMutable();
      } else if (const auto *VD = dyn_cast<VarDecl>(ME->getMemberDecl())) {
        O["static_member"] = true;
        O["q"] = VD->getQualifiedNameAsString();
      }
    } else if (const auto *UO = dyn_cast<UnaryOperator>(S)) {
      O["k"] = "un";
      std::string Op = UnaryOperator::getOpcodeStr(UO->getOpcode()).str();
      if (UO->isPostfix()) Op = "post" + Op;
      O["op"] = Op;
      O["e"] = child(UO->getSubExpr());
      if (UO->getType()->isIntegralOrEnumerationType()) {
        json::Object TI = typeInfo(UO->getType());
        O["rt"] = std::move(TI);
      }
    } else if (const auto *BO = dyn_cast<BinaryOperator>(S)) {
      O["k"] = "bin";
      O["op"] = BO->getOpcodeStr().str();
      O["l"] = child(BO->getLHS());
      O["r"] = child(BO->getRHS());
      if (BO->getType()->isIntegralOrEnumerationType()) {
        json::Object TI = typeInfo(BO->getType());
        O["rt"] = std::move(TI);
      }
    } else if (const auto *CO = dyn_cast<ConditionalOperator>(S)) {
      O["k"] = "cond";
      O["c"] = child(CO->getCond());
      O["t"] = child(CO->getTrueExpr());
      O["f"] = child(CO->getFalseExpr());
    } else if (const auto *LE = dyn_cast<LambdaExpr>(S)) {
      O["k"] = "lambda";
      O["fn"] = fnKey(LE->getCallOperator());
      json::Array Caps;
      json::Array Inits;
      json::Array ByCopy;
      auto InitIt = LE->capture_init_begin();
      for (const auto &C : LE->captures()) {
        const Expr *Init = (InitIt != LE->capture_init_end()) ? *InitIt : nullptr;
        if (InitIt != LE->capture_init_end()) ++InitIt;
        if (!C.capturesVariable()) continue;
        const auto *CV = C.getCapturedVar();
        Caps.push_back(CV->getNameAsString());
        if (C.getCaptureKind() == LCK_ByCopy) {
          if (const auto *VDc = dyn_cast<VarDecl>(CV)) {
            if (!VDc->isInitCapture()) {
              // captured by copy: the lambda keeps the value the variable has when the lambda is created
              json::Object BC;
              BC["name"] = VDc->getNameAsString();
              BC["did"] = declId(VDc);
              ByCopy.push_back(std::move(BC));
            }
          }
        }
        if (const auto *VD = dyn_cast<VarDecl>(CV)) {
          if (VD->isInitCapture() && VD->getInit()) {
            // [name = expr]: the capture is a fresh variable initialised when the lambda is created
            json::Object IC;
            IC["name"] = VD->getNameAsString();
            IC["did"] = declId(VD);
            IC["isref"] = VD->getType()->isReferenceType();
            IC["init"] = child(VD->getInit());
            Inits.push_back(std::move(IC));
          }
        }
      }
      O["captures"] = std::move(Caps);
      O["init_captures"] = std::move(Inits);
      O["by_copy"] = std::move(ByCopy);
    } else if (const auto *NE = dyn_cast<CXXNewExpr>(S)) {
      O["k"] = "new";
      O["alloc_type"] = typeStr(NE->getAllocatedType());
      O["array"] = NE->isArray();
      if (NE->getInitializer()) O["init"] = child(NE->getInitializer());
    } else if (const auto *DE = dyn_cast<CXXDeleteExpr>(S)) {
      O["k"] = "delete";
      O["array"] = DE->isArrayForm();
      O["e"] = child(DE->getArgument());
    } else if (isa<CXXThrowExpr>(S)) {
      O["k"] = "throw";
      O["text"] = spell(S);
    } else if (const auto *CE = dyn_cast<CXXConstructExpr>(S)) {
      O["k"] = "construct";
      const CXXConstructorDecl *CD = CE->getConstructor();
      O["record"] = recName(CD->getParent());
      O["ctor"] = fnKey(CD);
      O["nparams"] = (int64_t)CD->getNumParams();
      O["copy_or_move"] = CD->isCopyOrMoveConstructor();
      O["move"] = CD->isMoveConstructor();
      O["defaulted"] = CD->isDefaulted();
      O["list"] = CE->isListInitialization();
      O["elidable"] = CE->isElidable();
      O["in_root"] = inRoot(CD->getLocation());
      json::Array A;
      for (const Expr *Arg : CE->arguments()) {
        if (isa<CXXDefaultArgExpr>(Arg)) continue;
        A.push_back(child(Arg));
      }
      O["args"] = std::move(A);
    } else if (const auto *MC = dyn_cast<CXXMemberCallExpr>(S)) {
      O["k"] = "mcall";
      const CXXMethodDecl *MD = MC->getMethodDecl();
      if (MD) {
        O["method"] = MD->getNameAsString();
        O["callee"] = fnKey(MD);
        O["record"] = recName(MD->getParent());
        O["const_method"] = MD->isConst();
        O["in_root"] = inRoot(MD->getLocation());
        if (isa<CXXConversionDecl>(MD)) O["conversion"] = typeStr(cast<CXXConversionDecl>(MD)->getConversionType());
      } else {
        O["method"] = "?";
      }
      const Expr *Obj = MC->getImplicitObjectArgument();
      O["obj"] = child(Obj);
      if (Obj) {
        QualType OT = Obj->getType();
        if (OT->isPointerType()) OT = OT->getPointeeType();
        O["obj_type"] = canonStr(OT);
        O["obj_const"] = OT.isConstQualified();
        O["obj_ptr"] = Obj->getType()->isPointerType();
      }
      json::Array A;
      for (const Expr *Arg : MC->arguments()) {
        if (isa<CXXDefaultArgExpr>(Arg)) {
          json::Object D{{"k", "defarg"}};
          tryFold(cast<CXXDefaultArgExpr>(Arg)->getExpr(), D);
          A.push_back(std::move(D));
          continue;
        }
        A.push_back(child(Arg));
      }
      O["args"] = std::move(A);
    } else if (const auto *OC = dyn_cast<CXXOperatorCallExpr>(S)) {
      O["k"] = "opcall";
      O["op"] = getOperatorSpelling(OC->getOperator());
      if (const FunctionDecl *FD = OC->getDirectCallee()) {
        O["callee"] = fnKey(FD);
        O["in_root"] = inRoot(FD->getLocation());
        if (const auto *MD = dyn_cast<CXXMethodDecl>(FD)) {
          O["record"] = recName(MD->getParent());
          O["const_method"] = MD->isConst();
        }
      }
      json::Array A;
      for (const Expr *Arg : OC->arguments()) A.push_back(child(Arg));
      O["args"] = std::move(A);
      if (OC->getNumArgs() > 0) {
        O["obj_type"] = canonStr(OC->getArg(0)->getType());
      }
    } else if (const auto *CL = dyn_cast<CallExpr>(S)) {
      O["k"] = "call";
      if (const FunctionDecl *FD = CL->getDirectCallee()) {
        O["callee"] = fnKey(FD);
        O["name"] = FD->getQualifiedNameAsString();
        O["in_root"] = inRoot(FD->getLocation());
        if (unsigned B = FD->getBuiltinID()) O["builtin"] = (int64_t)B;
      } else {
        O["callee"] = "?";
        O["fnexpr"] = child(CL->getCallee());
      }
      json::Array A;
      for (const Expr *Arg : CL->arguments()) {
        if (isa<CXXDefaultArgExpr>(Arg)) continue;
        A.push_back(child(Arg));
      }
      O["args"] = std::move(A);
    } else if (const auto *CA = dyn_cast<CastExpr>(S)) {
      O["k"] = "cast";
      O["ck"] = CA->getCastKindName();
      O["explicit"] = isa<ExplicitCastExpr>(CA);
      if (isa<CXXConstCastExpr>(CA)) O["const_cast"] = true;
      if (isa<CStyleCastExpr>(CA)) O["cstyle"] = true;
      if (isa<CXXReinterpretCastExpr>(CA)) O["reinterpret"] = true;
      json::Object TI = typeInfo(CA->getType());
      O["to"] = std::move(TI);
      json::Object FI = typeInfo(CA->getSubExpr()->getType());
      O["from"] = std::move(FI);
      O["e"] = child(CA->getSubExpr());
    } else if (const auto *AS = dyn_cast<ArraySubscriptExpr>(S)) {
      O["k"] = "index";
      O["base"] = child(AS->getBase());
      O["idx"] = child(AS->getIdx());
      QualType BT = AS->getBase()->IgnoreParenImpCasts()->getType();
      if (const auto *CAT = Ctx.getAsConstantArrayType(BT))
        O["extent"] = llvm::toString(CAT->getSize(), 10, false);
    } else if (const auto *IL = dyn_cast<InitListExpr>(S)) {
      O["k"] = "initlist";
      O["scalar"] = IL->getType()->isScalarType();
      json::Array A;
      for (const Expr *I : IL->inits()) A.push_back(child(I));
      O["items"] = std::move(A);
    } else if (const auto *DS = dyn_cast<DeclStmt>(S)) {
      O["k"] = "decl";
      json::Array A;
      for (const Decl *D : DS->decls()) {
        const auto *VD = dyn_cast<VarDecl>(D);
        if (!VD) continue;
        json::Object V;
        V["name"] = VD->getNameAsString();
        V["did"] = declId(VD);
        json::Object TI = typeInfo(VD->getType());
        V["type"] = std::move(TI);
        V["ref"] = VD->getType()->isReferenceType();
        V["storage"] = VD->getTLSKind() != VarDecl::TLS_None ? "thread_local"
                       : VD->isStaticLocal()                ? "static"
                                                            : "auto";
        V["const"] = VD->getType().isConstQualified();
        if (VD->getInit()) V["init"] = child(VD->getInit());
        A.push_back(std::move(V));
      }
      O["vars"] = std::move(A);
    } else if (const auto *RS = dyn_cast<ReturnStmt>(S)) {
      O["k"] = "return";
      if (RS->getRetValue()) O["e"] = child(RS->getRetValue());
    } else if (isa<CXXDefaultInitExpr>(S)) {
      O["k"] = "definit";
      O["e"] = child(cast<CXXDefaultInitExpr>(S)->getExpr());
    } else if (isa<CXXScalarValueInitExpr>(S) || isa<ImplicitValueInitExpr>(S)) {
      O["k"] = "zeroinit";
    } else if (const auto *UE = dyn_cast<UnaryExprOrTypeTraitExpr>(S)) {
      O["k"] = "other";
      O["cls"] = UE->getStmtClassName();
    } else {
      O["k"] = "other";
      O["cls"] = S->getStmtClassName();
      json::Array A;
      for (const Stmt *C : S->children())
        if (C) A.push_back(child(C));
      O["children"] = std::move(A);
    }
    return std::move(O);
  }

  void serDeclRef(const DeclRefExpr *DR, json::Object &O) {
    const ValueDecl *D = DR->getDecl();
    O["k"] = "var";
    O["name"] = D->getNameAsString();
    O["did"] = declId(D);
    if (const auto *VD = dyn_cast<VarDecl>(D)) {
      std::string Scope;
      if (isa<ParmVarDecl>(VD))
        Scope = "param";
      else if (VD->isStaticLocal())
        Scope = VD->getTLSKind() != VarDecl::TLS_None ? "tls_local" : "static_local";
      else if (VD->hasLocalStorage())
        Scope = "local";
      else if (VD->isStaticDataMember())
        Scope = VD->getTLSKind() != VarDecl::TLS_None ? "tls_member" : "static_member";
      else
        Scope = VD->getTLSKind() != VarDecl::TLS_None ? "tls_global" : "global";
      O["scope"] = Scope;
      O["q"] = VD->getQualifiedNameAsString();
      json::Object TI = typeInfo(VD->getType());
      O["vt"] = std::move(TI);
      O["isref"] = VD->getType()->isReferenceType();
      O["const"] = VD->getType().getNonReferenceType().isConstQualified();
      if (const auto *CAT = Ctx.getAsConstantArrayType(VD->getType()))
        O["extent"] = llvm::toString(CAT->getSize(), 10, false);
    } else if (isa<FunctionDecl>(D)) {
      O["scope"] = "func";
      O["q"] = fnKey(cast<FunctionDecl>(D));
    } else if (isa<EnumConstantDecl>(D)) {
      O["scope"] = "enum";
    } else {
      O["scope"] = "other";
    }
  }

  // ---------------------------------------------------------------- functions
  void addFunction(const FunctionDecl *FD) {
    if (!FD || !FD->doesThisDeclarationHaveABody()) return;
    if (FD->isDependentContext()) return;
    if (!inRoot(FD->getLocation())) return;
    std::string Key = fnKey(FD);
    if (!SeenFn.insert(Key).second) return;
    const Stmt *Body = FD->getBody();
    if (!Body) return;

    FnCtx Local;
    FnCtx *Saved = F;
    F = &Local;

    json::Object O;
    O["key"] = Key;
    O["name"] = fnName(FD);
    O["short"] = FD->getNameAsString();
    O["file"] = fileOf(FD->getLocation());
    O["line"] = (int64_t)lineOf(FD->getLocation());
    O["endline"] = (int64_t)lineOf(FD->getEndLoc());
    O["ret"] = typeInfo(FD->getReturnType());
    O["defaulted"] = FD->isDefaulted();
    O["constexpr"] = FD->isConstexpr();
    O["template_inst"] = FD->isTemplateInstantiation();
    std::string Kind = "function";
    if (const auto *MD = dyn_cast<CXXMethodDecl>(FD)) {
      Kind = "method";
      O["record"] = recName(MD->getParent());
      O["const"] = MD->isConst();
      O["static"] = MD->isStatic();
      O["access"] = (int64_t)MD->getAccess();
      if (isa<CXXConstructorDecl>(MD)) {
        Kind = "ctor";
        const auto *CD = cast<CXXConstructorDecl>(MD);
        O["copy_ctor"] = CD->isCopyConstructor();
        O["move_ctor"] = CD->isMoveConstructor();
        O["default_ctor"] = CD->isDefaultConstructor();
      } else if (isa<CXXDestructorDecl>(MD)) {
        Kind = "dtor";
      } else if (isa<CXXConversionDecl>(MD)) {
        Kind = "conversion";
        O["conv_type"] = typeStr(cast<CXXConversionDecl>(MD)->getConversionType());
      } else if (MD->isMoveAssignmentOperator()) {
        O["move_assign"] = true;
      } else if (MD->isCopyAssignmentOperator()) {
        O["copy_assign"] = true;
      }
      if (isLambdaCallOperator(MD)) {
        Kind = "lambda";
        if (const FunctionDecl *P = enclosingFn(MD)) O["parent"] = fnKey(P);
      }
    }
    O["kind"] = Kind;
    json::Array Params;
    for (const ParmVarDecl *P : FD->parameters()) {
      json::Object PO;
      PO["name"] = P->getNameAsString();
      PO["did"] = declId(P);
      PO["type"] = typeInfo(P->getType());
      PO["isref"] = P->getType()->isReferenceType();
      PO["isptr"] = P->getType()->isPointerType();
      Params.push_back(std::move(PO));
    }
    O["params"] = std::move(Params);

    // CFG
    CFG::BuildOptions BO;
    BO.AddImplicitDtors = true;
    BO.AddInitializers = true;
    BO.AddTemporaryDtors = false;
    BO.AddEHEdges = false;
    BO.PruneTriviallyFalseEdges = true;
    std::unique_ptr<CFG> G = CFG::buildCFG(FD, const_cast<Stmt *>(Body), &Ctx, BO);
    if (!G) {
      O["cfg_error"] = true;
      Functions.push_back(std::move(O));
      F = Saved;
      return;
    }
    // pass 1: which statements are CFG elements
    for (const CFGBlock *B : *G)
      for (const CFGElement &E : *B)
        if (auto CS = E.getAs<CFGStmt>()) F->Elems.insert(strip(CS->getStmt()));

    json::Array Blocks;
    std::set<int> Emitted;
    for (const CFGBlock *B : *G) {
      json::Object BJ;
      BJ["id"] = (int64_t)B->getBlockID();
      json::Array Elems;
      for (const CFGElement &E : *B) {
        json::Object EJ;
        if (auto CS = E.getAs<CFGStmt>()) {
          const Stmt *S = strip(CS->getStmt());
          int Id = sid(S);
          if (!Emitted.insert(Id).second) continue;
          // serialise the node itself (children that are elements become refs)
          F->Elems.erase(S);
          json::Value V = ser(S);
          F->Elems.insert(S);
          EJ["kind"] = "stmt";
          EJ["id"] = Id;
          EJ["loc"] = locStr(S->getBeginLoc());
          EJ["e"] = std::move(V);
        } else if (auto CI = E.getAs<CFGInitializer>()) {
          const CXXCtorInitializer *I = CI->getInitializer();
          EJ["kind"] = "init";
          if (I->isAnyMemberInitializer()) EJ["member"] = I->getAnyMember()->getNameAsString();
          if (I->isBaseInitializer()) EJ["base"] = typeStr(QualType(I->getBaseClass(), 0));
          EJ["written"] = I->isWritten();
          EJ["loc"] = locStr(I->getSourceLocation());
          EJ["e"] = child(I->getInit());
        } else if (auto AD = E.getAs<CFGAutomaticObjDtor>()) {
          EJ["kind"] = "auto_dtor";
          EJ["var"] = AD->getVarDecl()->getNameAsString();
          EJ["did"] = declId(AD->getVarDecl());
          EJ["type"] = canonStr(AD->getVarDecl()->getType());
          EJ["loc"] = locStr(AD->getTriggerStmt() ? AD->getTriggerStmt()->getEndLoc() : FD->getEndLoc());
        } else if (auto MDt = E.getAs<CFGMemberDtor>()) {
          EJ["kind"] = "member_dtor";
          EJ["member"] = MDt->getFieldDecl()->getNameAsString();
          EJ["type"] = canonStr(MDt->getFieldDecl()->getType());
          EJ["loc"] = locStr(FD->getEndLoc());
        } else if (auto BD = E.getAs<CFGBaseDtor>()) {
          EJ["kind"] = "base_dtor";
          EJ["type"] = canonStr(BD->getBaseSpecifier()->getType());
        } else if (E.getAs<CFGDeleteDtor>()) {
          EJ["kind"] = "delete_dtor";
        } else {
          continue;
        }
        Elems.push_back(std::move(EJ));
      }
      BJ["elems"] = std::move(Elems);
      if (const Stmt *T = B->getTerminatorStmt()) {
        json::Object TJ;
        TJ["cls"] = T->getStmtClassName();
        TJ["line"] = (int64_t)lineOf(T->getBeginLoc());
        if (const Stmt *C = B->getTerminatorCondition()) {
          TJ["cond"] = child(C);
          TJ["cond_id"] = sid(C);
        }
        if (const auto *GS = dyn_cast<GotoStmt>(T)) TJ["label"] = GS->getLabel()->getNameAsString();
        BJ["term"] = std::move(TJ);
      }
      json::Array Succs;
      for (auto I = B->succ_begin(); I != B->succ_end(); ++I) {
        if (const CFGBlock *SB = I->getReachableBlock())
          Succs.push_back((int64_t)SB->getBlockID());
        else
          Succs.push_back(nullptr);
      }
      BJ["succs"] = std::move(Succs);
      if (const Stmt *Lbl = B->getLabel()) {
        // case / default labels: the switch terminator of the predecessor selects by these values
        if (const auto *CS = dyn_cast<CaseStmt>(Lbl)) {
          Expr::EvalResult R;
          if (CS->getLHS() && !CS->getLHS()->isValueDependent() && CS->getLHS()->EvaluateAsInt(R, Ctx) && !CS->getRHS())
            BJ["case"] = apToString(R.Val.getInt());
          else
            BJ["case"] = "?";
        } else if (isa<DefaultStmt>(Lbl)) {
          BJ["default"] = true;
        }
      }
      if (B->hasNoReturnElement()) BJ["noreturn"] = true;
      Blocks.push_back(std::move(BJ));
    }
    O["blocks"] = std::move(Blocks);
    O["entry"] = (int64_t)G->getEntry().getBlockID();
    O["exit"] = (int64_t)G->getExit().getBlockID();
    Functions.push_back(std::move(O));
    F = Saved;
  }

  // ---------------------------------------------------------------- records
  void addRecord(const CXXRecordDecl *RD) {
    if (!RD || !RD->isCompleteDefinition() || RD->isLambda()) return;
    if (RD->isDependentContext()) return;
    if (!inRoot(RD->getLocation())) return;
    std::string Name = recName(RD);
    if (!SeenRec.insert(Name).second) return;
    FnCtx Local;
    FnCtx *Saved = F;
    F = &Local;
    json::Object O;
    O["name"] = Name;
    O["file"] = fileOf(RD->getLocation());
    O["line"] = (int64_t)lineOf(RD->getLocation());
    O["is_template_spec"] = isa<ClassTemplateSpecializationDecl>(RD);
    // can an object with static storage duration be constant-initialised by its default constructor?
    O["constexpr_default_ctor"] = RD->hasDefaultConstructor() && RD->hasConstexprDefaultConstructor();
    json::Array Fields;
    for (const FieldDecl *FDn : RD->fields()) {
      json::Object FJ;
      FJ["name"] = FDn->getNameAsString();
      FJ["type"] = typeInfo(FDn->getType());
      FJ["mutable"] = FDn->isMutable();
      FJ["access"] = (int64_t)FDn->getAccess();
      FJ["line"] = (int64_t)lineOf(FDn->getLocation());
      FJ["const"] = FDn->getType().isConstQualified();
      FJ["pointer"] = FDn->getType()->isPointerType();
      if (const auto *CAT = Ctx.getAsConstantArrayType(FDn->getType()))
        FJ["extent"] = llvm::toString(CAT->getSize(), 10, false);
      if (FDn->hasInClassInitializer() && FDn->getInClassInitializer())
        FJ["init"] = ser(FDn->getInClassInitializer());
      Fields.push_back(std::move(FJ));
    }
    O["fields"] = std::move(Fields);
    json::Array Statics;
    json::Array Methods;
    for (const Decl *D : RD->decls()) {
      if (const auto *VD = dyn_cast<VarDecl>(D)) {
        json::Object VJ;
        VJ["name"] = VD->getNameAsString();
        VJ["type"] = typeInfo(VD->getType());
        VJ["tls"] = VD->getTLSKind() != VarDecl::TLS_None;
        VJ["constexpr"] = VD->isConstexpr();
        VJ["line"] = (int64_t)lineOf(VD->getLocation());
        Statics.push_back(std::move(VJ));
      }
      const CXXMethodDecl *MD = dyn_cast<CXXMethodDecl>(D);
      if (const auto *FT = dyn_cast<FunctionTemplateDecl>(D))
        MD = dyn_cast<CXXMethodDecl>(FT->getTemplatedDecl());
      if (!MD) continue;
      if (MD->isImplicit() && !MD->isDefaulted()) continue;
      json::Object MJ;
      MJ["name"] = MD->getNameAsString();
      MJ["key"] = fnKey(MD);
      MJ["const"] = MD->isConst();
      MJ["static"] = MD->isStatic();
      MJ["deleted"] = MD->isDeleted();
      MJ["defaulted"] = MD->isDefaulted();
      MJ["implicit"] = MD->isImplicit();
      MJ["access"] = (int64_t)MD->getAccess();
      MJ["line"] = (int64_t)lineOf(MD->getLocation());
      MJ["is_template"] = isa<FunctionTemplateDecl>(D);
      if (const auto *FPT = MD->getType()->getAs<FunctionProtoType>()) {
        ExceptionSpecificationType EST = FPT->getExceptionSpecType();
        if (EST == EST_Unevaluated || EST == EST_Uninstantiated || EST == EST_Unparsed)
          MJ["noexcept"] = nullptr;
        else
          MJ["noexcept"] = FPT->isNothrow();
      }
      std::string K = "method";
      if (const auto *CD = dyn_cast<CXXConstructorDecl>(MD)) {
        K = CD->isCopyConstructor() ? "copy_ctor" : CD->isMoveConstructor() ? "move_ctor"
            : CD->isDefaultConstructor() ? "default_ctor" : "ctor";
        MJ["explicit"] = CD->isExplicit();
      } else if (isa<CXXDestructorDecl>(MD)) {
        K = "dtor";
      } else if (isa<CXXConversionDecl>(MD)) {
        K = "conversion";
      } else if (MD->isCopyAssignmentOperator()) {
        K = "copy_assign";
      } else if (MD->isMoveAssignmentOperator()) {
        K = "move_assign";
      }
      MJ["kind"] = K;
      json::Array Ps;
      for (const ParmVarDecl *P : MD->parameters()) Ps.push_back(typeInfo(P->getType()));
      MJ["params"] = std::move(Ps);
      MJ["ret"] = typeInfo(MD->getReturnType());
      Methods.push_back(std::move(MJ));
    }
    O["statics"] = std::move(Statics);
    O["methods"] = std::move(Methods);
    Records.push_back(std::move(O));
    F = Saved;
  }

  // ---------------------------------------------------------------- variables
  void addVar(const VarDecl *VD) {
    if (!VD || isa<ParmVarDecl>(VD)) return;
    if (!(VD->isFileVarDecl() || VD->isStaticDataMember())) return;
    if (VD->isTemplated() || VD->getDeclContext()->isDependentContext()) return;
    if (!inRoot(VD->getLocation())) return;
    std::string Q = VD->getQualifiedNameAsString();
    if (!SeenVar.insert(Q).second) return;
    json::Object O;
    O["q"] = Q;
    O["name"] = VD->getNameAsString();
    O["file"] = fileOf(VD->getLocation());
    O["line"] = (int64_t)lineOf(VD->getLocation());
    O["type"] = typeInfo(VD->getType());
    O["tls"] = VD->getTLSKind() != VarDecl::TLS_None;
    O["const"] = VD->getType().isConstQualified();
    if (const auto *CAT = Ctx.getAsConstantArrayType(VD->getType()))
      O["extent"] = llvm::toString(CAT->getSize(), 10, false);
    // static-storage objects: initialised before any code runs (constant initialisation) or by code that runs at some point
    // during program start-up (dynamic initialisation: a non-constexpr constructor, a non-constant initialiser)
    if (VD->hasGlobalStorage() && VD->hasDefinition())
      O["const_init"] = VD->getDefinition()->hasConstantInitialization();
    {
      // the element type's base classes (an array of `struct Flag : std::atomic<bool>` is still an array of atomic flags)
      QualType ET = Ctx.getBaseElementType(VD->getType());
      if (const CXXRecordDecl *ER = ET->getAsCXXRecordDecl())
        if (ER->hasDefinition() && ER->getNumBases() > 0) {
          json::Array Bs;
          for (const auto &B : ER->bases()) Bs.push_back(canonStr(B.getType().getCanonicalType()));
          O["elem_bases"] = std::move(Bs);
        }
    }
    QualType T = VD->getType();
    bool Done = false;
    if (T.isConstQualified() && (T->isIntegralOrEnumerationType()) && VD->hasInit() &&
        !VD->getInit()->isValueDependent()) {
      if (const APValue *V = VD->evaluateValue()) {
        if (V->isInt()) {
          O["value"] = apToString(V->getInt());
          Constants.push_back(std::move(O));
          Done = true;
        }
      }
    }
    if (!Done) Globals.push_back(std::move(O));
  }
};

class Visitor : public RecursiveASTVisitor<Visitor> {
 public:
  explicit Visitor(Extractor &E) : Ex(E) {}
  bool shouldVisitTemplateInstantiations() const { return true; }
  bool shouldVisitImplicitCode() const { return false; }
  bool VisitFunctionDecl(FunctionDecl *FD) {
    Ex.addFunction(FD);
    return true;
  }
  bool VisitLambdaExpr(LambdaExpr *LE) {
    Ex.addFunction(LE->getCallOperator());
    // a generic lambda ([](auto &x) {...}): its call operator is a template; the bodies that run are its specialisations
    if (LE->isGenericLambda())
      if (const FunctionTemplateDecl *FTD = LE->getCallOperator()->getDescribedFunctionTemplate())
        for (FunctionDecl *Spec : FTD->specializations())
          if (Spec->doesThisDeclarationHaveABody()) Ex.addFunction(Spec);
    return true;
  }
  bool VisitCXXRecordDecl(CXXRecordDecl *RD) {
    Ex.addRecord(RD);
    return true;
  }
  bool VisitVarDecl(VarDecl *VD) {
    Ex.addVar(VD);
    return true;
  }

 private:
  Extractor &Ex;
};

class Consumer : public ASTConsumer {
 public:
  explicit Consumer(std::string In) : InFile(std::move(In)) {}
  void HandleTranslationUnit(ASTContext &Ctx) override {
    if (Ctx.getDiagnostics().hasErrorOccurred()) {
      llvm::errs() << "cxxfacts: errors in " << InFile << "\n";
    }
    Extractor Ex(Ctx);
    Visitor V(Ex);
    V.TraverseDecl(Ctx.getTranslationUnitDecl());
    json::Object Top;
    Top["tu"] = InFile;
    Top["errors"] = Ctx.getDiagnostics().hasErrorOccurred();
    Top["constants"] = std::move(Ex.Constants);
    Top["globals"] = std::move(Ex.Globals);
    Top["records"] = std::move(Ex.Records);
    Top["functions"] = std::move(Ex.Functions);
    std::string Base = InFile;
    auto Pos = Base.find_last_of('/');
    if (Pos != std::string::npos) Base = Base.substr(Pos + 1);
    std::string Path = OutDir + "/" + Base + ".json";
    std::error_code EC;
    llvm::raw_fd_ostream OS(Path, EC);
    if (EC) {
      llvm::errs() << "cxxfacts: cannot write " << Path << ": " << EC.message() << "\n";
      return;
    }
    OS << json::Value(std::move(Top)) << "\n";
  }

 private:
  std::string InFile;
};

class Action : public ASTFrontendAction {
 public:
  std::unique_ptr<ASTConsumer> CreateASTConsumer(CompilerInstance &, llvm::StringRef In) override {
    return std::make_unique<Consumer>(In.str());
  }
};

}  // namespace

int main(int argc, const char **argv) {
  auto Parser = tooling::CommonOptionsParser::create(argc, argv, Cat);
  if (!Parser) {
    llvm::errs() << llvm::toString(Parser.takeError()) << "\n";
    return 2;
  }
  tooling::ClangTool Tool(Parser->getCompilations(), Parser->getSourcePathList());
  return Tool.run(tooling::newFrontendActionFactory<Action>().get()) == 0 ? 0 : 2;
}
