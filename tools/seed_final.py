#!/usr/bin/env python3
"""Final pass over /verif/seeded/*: apply each kept patch to /repo itself (git -C /repo apply),
run the checks that claim to detect it, undo it straight afterwards (git -C /repo checkout -- .),
and record the outcome in meta.json ('on_repo').  Evidence files are not rewritten (VERIF_NO_EVIDENCE)."""
import json, os, subprocess, sys
def sh(cmd, cwd=None, timeout=900):
    r = subprocess.run(cmd, shell=True, cwd=cwd, capture_output=True, text=True, timeout=timeout)
    return r.returncode, r.stdout + r.stderr
root = '/verif/seeded'
only = sys.argv[1:]
st = subprocess.run('git -C /repo status --porcelain --untracked-files=no', shell=True, capture_output=True, text=True).stdout.strip()
if st:
    print('/repo has local modifications, refusing'); sys.exit(2)
for sid in sorted(os.listdir(root)):
    if only and sid not in only:
        continue
    d = os.path.join(root, sid)
    mp = os.path.join(d, 'meta.json')
    if not os.path.exists(mp):
        continue
    m = json.load(open(mp))
    checks = m.get('detected_by') or list(m.get('checks', {}).keys())
    rc, out = sh('git -C /repo apply %s/patch.diff' % d)
    if rc != 0:
        print(sid, 'patch does not apply', out[:200]); continue
    res = {}
    try:
        for c in checks:
            rcc, outc = sh('VERIF_NO_EVIDENCE=1 ./check %s --tier quick' % c, '/verif', 600)
            res[c] = {'exit': rcc, 'first': [l for l in outc.splitlines() if l.startswith('  ')][:2]}
    finally:
        sh('git -C /repo checkout -- .')
    m['on_repo'] = {'cmd': 'git -C /repo apply patch.diff; ./check <id>; git -C /repo checkout -- .', 'results': res}
    json.dump(m, open(mp, 'w'), indent=1)
    print(sid, {c: v['exit'] for c, v in res.items()})
print('repo clean:', subprocess.run('git -C /repo status --porcelain --untracked-files=no', shell=True, capture_output=True, text=True).stdout.strip() == '')
