#!/bin/bash
# usage: rebase_patch.sh <patch dir>  -- re-create patch.diff against the current /repo HEAD (patch was made against 0c89f63, the HEAD before the D7 fix 777047a)
set -e
d=$1
t=$(mktemp -d /tmp/cppu-rb-XXXX)
git -C /repo worktree add -q --detach $t/old 0c89f63
git -C /repo worktree add -q --detach $t/new HEAD
git -C $t/old apply $d/patch.diff
# carry the patched files over, then re-apply the fix where its original text survived
(cd $t/old && git diff --name-only) | while read f; do cp $t/old/$f $t/new/$f; done
python3 - $t/new/src/lock/optimistic_lock.cpp <<'PY'
import sys
p=sys.argv[1]
s=open(p).read()
old="""        std::atomic_thread_fence(kRelease);
        *cur = lock->load(kRelaxed);"""
if old in s:
    s=s.replace(old,"""        std::atomic_thread_fence(kRelease);
        *cur = lock->load(kAcquire);""")
    open(p,'w').write(s)
PY
(cd $t/new && git diff) > $d/patch.diff.new
git -C /repo worktree remove --force $t/old; git -C /repo worktree remove --force $t/new; rm -rf $t
git -C /repo apply --check $d/patch.diff.new && mv $d/patch.diff.new $d/patch.diff && echo "rebased $d"
