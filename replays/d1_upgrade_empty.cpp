// D1: PessimisticLock::SIXGuard::UpgradeToX returns a guard that owns nothing
#include <cstdio>
#include <future>
#include <chrono>
#include "dbgroup/lock/pessimistic_lock.hpp"
int main() {
  dbgroup::lock::PessimisticLock l;
  {
    auto six = l.LockSIX();
    auto x = six.UpgradeToX();
    std::printf("upgraded guard owns: %d\n", static_cast<bool>(x) ? 1 : 0);
    if (!x) { std::printf("DEFECT: UpgradeToX on an owning SIX guard returned an empty guard\n"); }
  }
  // after all guards are gone a fresh LockX must succeed immediately
  auto fut = std::async(std::launch::async, [&] { auto g = l.LockX(); return true; });
  if (fut.wait_for(std::chrono::seconds(2)) != std::future_status::ready) {
    std::printf("DEFECT: lock still exclusively held after the last guard died\n");
    std::_Exit(1);
  }
  std::printf("ok\n");
  return 0;
}
