// D2: two LockX requests; the window between the tail exchange and the write of the inherited
// flags into the own node is widened (VERIF_WINDOW injected by the replay script into a scratch
// copy of mcs_lock.cpp).  With the blind store the second requester's link is erased.
#include <atomic>
#include <chrono>
#include <cstdio>
#include <cstdlib>
#include <thread>
#include "dbgroup/lock/mcs_lock.hpp"
int main() {
  using namespace std::chrono_literals;
  dbgroup::lock::MCSLock l;
  std::atomic<int> done{0};
  std::thread a([&] { auto g = l.LockX(); std::this_thread::sleep_for(5ms); done++; });
  std::this_thread::sleep_for(10ms);  // a is inside its window, already the tail
  std::thread b([&] { auto g = l.LockX(); done++; });
  for (int i = 0; i < 300 && done != 2; ++i) std::this_thread::sleep_for(10ms);
  if (done != 2) { std::printf("DEFECT: deadlock, %d of 2 requests finished\n", done.load()); std::fflush(stdout); std::_Exit(1); }
  a.join(); b.join();
  std::printf("ok\n");
  return 0;
}
