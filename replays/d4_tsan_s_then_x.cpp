// D4: TSan honours the declared memory orders: a read under LockS followed by a write under
// LockX on plain data is reported as a race when the S release is relaxed.
#include <cstdio>
#include <thread>
#include LOCK_HEADER
int main() {
  dbgroup::lock::LOCK_CLASS l;
  long data = 0; long sink = 0;
  std::thread r([&] { for (int i = 0; i < 20000; ++i) { auto g = l.LockS(); sink += data; } });
  std::thread w([&] { for (int i = 0; i < 20000; ++i) { auto g = l.LockX(); data = i; } });
  r.join(); w.join();
  std::printf("done %ld\n", sink);
  return 0;
}
