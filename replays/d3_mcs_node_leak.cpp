// D3: MCSLock::UnlockS never recycles the group node when a successor exists and the S holder
// is the last member to leave.  Count live MCSLock-sized allocations through operator new.
#include <atomic>
#include <cstdio>
#include <cstdlib>
#include <new>
#include <thread>
#include <chrono>
#include "dbgroup/lock/mcs_lock.hpp"
static std::atomic<long> live{0};
void *operator new(std::size_t n) { if (n == sizeof(dbgroup::lock::MCSLock)) live++; return std::malloc(n); }
void operator delete(void *p) noexcept { std::free(p); }
void operator delete(void *p, std::size_t n) noexcept { if (n == sizeof(dbgroup::lock::MCSLock)) live--; std::free(p); }
int main() {
  using namespace std::chrono_literals;
  dbgroup::lock::MCSLock l;
  const int rounds = 200;
  long before = live.load();
  for (int r = 0; r < rounds; ++r) {
    auto x = l.LockX();                                    // X head of group G (main thread)
    std::atomic<int> stage{0};
    std::thread s([&] { auto g = l.LockS(); stage = 1; while (stage != 2) std::this_thread::yield(); });  // S joins G
    std::this_thread::sleep_for(2ms);
    std::thread w([&] { auto g = l.LockX(); });              // X successor takes the tail
    std::this_thread::sleep_for(2ms);
    { auto tmp = std::move(x); }                             // head releases first (S still member)
    while (stage != 1) std::this_thread::yield();
    stage = 2;                                               // S (last member) releases
    s.join(); w.join();
  }
  long after = live.load();
  std::printf("live MCSLock-sized allocations: before=%ld after=%ld (rounds=%d)\n", before, after, rounds);
  if (after - before > 8) { std::printf("DEFECT: queue nodes leaked\n"); return 1; }
  std::printf("ok\n");
  return 0;
}
