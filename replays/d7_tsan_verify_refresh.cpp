// D7: a failed VerifyVersion() refreshes the guard's version with a relaxed load.  The optimistic reader then
// reads the protected data and validates successfully against that refreshed version, although nothing orders
// the exclusive holder's writes before the reader's reads: ThreadSanitizer (which honours the declared memory
// orders) reports a data race on the payload.  With an acquire load in VerifyVersion the run is clean.
// The hand-shake between the threads uses relaxed atomics only, so it adds no happens-before edge itself.
#include <atomic>
#include <cstdio>
#include <thread>
#include "dbgroup/lock/optimistic_lock.hpp"
int main() {
  dbgroup::lock::OptimisticLock l;
  long payload_a = 0, payload_b = 0;
  std::atomic<int> stage{0};
  int accepted = 0;
  std::thread reader([&] {
    auto g = l.GetVersion();                       // version v1
    stage.store(1, std::memory_order_relaxed);
    while (stage.load(std::memory_order_relaxed) != 2) {}
    if (g.VerifyVersion()) return;                 // fails: the guard now carries v2 (read with a relaxed load)
    const long a = payload_a, b = payload_b;       // snapshot taken after the writer's release
    if (g.VerifyVersion()) { accepted = (a == b) ? 1 : 2; }
  });
  std::thread writer([&] {
    while (stage.load(std::memory_order_relaxed) != 1) {}
    { auto x = l.LockX(); payload_a = 1; payload_b = 1; }   // exclusive section, publishes v2 with a release store
    stage.store(2, std::memory_order_relaxed);
  });
  reader.join(); writer.join();
  std::printf("accepted=%d\n", accepted);
  return 0;
}
