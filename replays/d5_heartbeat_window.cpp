// D5: capacity 1; thread A obtains the ID and a heartbeat and exits; its exit path is widened
// between the two steps (VERIF_WINDOW injected into a scratch copy of id_manager.cpp).
// Thread B claims the same ID inside the window and finds A's heartbeat still unexpired.
#include <atomic>
#include <chrono>
#include <cstdio>
#include <memory>
#include <thread>
#include "dbgroup/thread/id_manager.hpp"
int main() {
  using namespace std::chrono_literals;
  using dbgroup::thread::IDManager;
  std::weak_ptr<size_t> hb_a;
  std::atomic<bool> a_exiting{false};
  std::thread a([&] { (void)IDManager::GetThreadID(); hb_a = IDManager::GetHeartBeat(); a_exiting = true; });
  while (!a_exiting) std::this_thread::yield();
  bool bad = false;
  std::thread b([&] { auto id = IDManager::GetThreadID(); bad = !hb_a.expired(); std::printf("B got id %zu, A's heartbeat expired: %d\n", id, (int)hb_a.expired()); });
  b.join(); a.join();
  if (bad) { std::printf("DEFECT: ID reused while the previous owner's heartbeat is unexpired\n"); return 1; }
  std::printf("ok\n");
  return 0;
}
