// D6: data races on non-atomic fields shared between workers and the coordinator:
//  (a) TLSEpoch::heartbeat (std::weak_ptr): assigned in CreateEpochGuard by a worker whose slot's previous
//      heartbeat has expired, read (expired()) by the coordinator in CollectProtectedEpochs
//  (b) protected_lists_ / ProtectedNode::next: written by ForwardGlobalEpoch / RemoveOutDatedLists,
//      traversed by workers in GetProtectedEpochs
// clang++ -fsanitize=thread; TSan reports the races.
#include <atomic>
#include <cstdio>
#include <thread>
#include <vector>
#include "dbgroup/thread/epoch_manager.hpp"
int main() {
  dbgroup::thread::EpochManager em;
  std::atomic<bool> stop{false};
  std::thread coord([&] { for (int i = 0; i < 3000; ++i) em.ForwardGlobalEpoch(); stop = true; });
  size_t sink = 0;
  while (!stop) {
    std::vector<std::thread> ws;
    for (int t = 0; t < 4; ++t) ws.emplace_back([&] { for (int k = 0; k < 50; ++k) { auto [g, l] = em.GetProtectedEpochs(); sink += l.size(); } });
    for (auto &w : ws) w.join();   // threads exit: their IDs are reused by the next batch (heartbeat re-bound)
  }
  coord.join();
  std::printf("done %zu\n", sink);
  return 0;
}
