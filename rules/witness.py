"""Type-level facts as compile-time witnesses (DESIGN.md 2.3): one generated TU of tagged
static_asserts compiled with -fsyntax-only; the verdict per assertion is read from the
diagnostics.  A control assertion that must fail runs every time."""
import os
import re
import subprocess
import tempfile
import shutil
from facts import AnalysisBroken, RESOURCE_DIR


def run_witness(flags, includes, asserts, compilers=('clang++',)):
    """asserts: list of (tag, expression, description).  Returns {tag: True/False}."""
    d = tempfile.mkdtemp(prefix='cppu-wit-')
    try:
        src = os.path.join(d, 'witness.cpp')
        with open(src, 'w') as fh:
            fh.write('#include <type_traits>\n#include <utility>\n#include <vector>\n#include <random>\n#include <cstdint>\n')
            for inc in includes:
                fh.write('#include "%s"\n' % inc)
            fh.write('static_assert(sizeof(int) == 0, "WITNESS[__control__]");\n')
            for tag, expr, _ in asserts:
                fh.write('static_assert(%s, "WITNESS[%s]");\n' % (expr, tag))
        result = None
        for cxx in compilers:
            cmd = [cxx] + [f for f in flags if not f.startswith('-resource-dir')] + ['-fsyntax-only', '-w', src]
            if cxx.startswith('clang'):
                cmd += ['-ferror-limit=0']
            else:
                cmd += ['-fmax-errors=0']
            r = subprocess.run(cmd, capture_output=True, text=True)
            failed = set(re.findall(r'WITNESS\[([^\]]+)\]', r.stderr))
            if '__control__' not in failed:
                raise AnalysisBroken('witness harness broken with %s: control assertion did not fail: %s' % (cxx, r.stderr[-500:]))
            other = [ln for ln in r.stderr.splitlines() if (': error:' in ln or 'fatal error' in ln) and 'WITNESS[' not in ln and 'static assertion' not in ln and 'static_assert' not in ln]
            if other:
                raise AnalysisBroken('witness TU does not compile with %s: %s' % (cxx, other[0][:300]))
            res = {tag: (tag not in failed) for tag, _, _ in asserts}
            if result is None:
                result = res
            else:
                for k in res:
                    result[k] = result[k] and res[k]
        return result
    finally:
        shutil.rmtree(d, ignore_errors=True)
