"""Zipf generator rules: C19 (PURE.* effect rules, CTOR.REJECT) and the structural necessary
conditions of C06's range clause (Z.PIN / Z.DENOM / Z.SWITCH / Z.ACCESS / Z.DEFAULT).
Every rule is evaluated on each of the 8 instantiations; the verdicts must agree.
DESIGN.md section 5."""
import re
from facts import AnalysisBroken
from pathsim import S, C, show, symbols, is_const
from locks import Sink
from witness import run_witness

NS = 'dbgroup::random::'
TLS_ALLOW = ('std::uniform_real_distribution<', 'std::uniform_int_distribution<')
MATH = ('pow', 'log', 'exp', 'sqrt', 'std::pow', 'std::log', 'std::exp', 'std::sqrt', 'log2', 'std::log2', 'floor', 'std::floor', 'ceil', 'std::ceil')


def norm(v):
    return re.sub(r'#\d+', '', show(v))


def fval(v):
    """numeric value of a folded floating / integral constant"""
    if isinstance(v, tuple) and v and v[0] == 'f':
        return float(v[1])
    if is_const(v):
        return float(v[1])
    return None


def bits_of_val(v):
    return v[2] if isinstance(v, tuple) and len(v) > 2 and v[0] == 's' else 64


class ZipfRules:
    def __init__(self, fx, eng, sink):
        self.fx, self.eng, self.sink = fx, eng, sink
        self.classes = []
        self.writer_thresholds = {}
        for name, rec in fx.records.items():
            m = re.match(r'dbgroup::random::(Approx)?ZipfDistribution<(.*)>$', name)
            if m and name in fx.records:
                self.classes.append((name, bool(m.group(1)), rec))
        if len(self.classes) < 8:
            raise AnalysisBroken('expected 8 instantiations of the two Zipf classes, found %d' % len(self.classes))

    def fns(self, rec, short):
        return [f for f in self.fx.functions.values() if f.get('record') == rec and f['short'] == short]

    def one(self, rec, short):
        c = self.fns(rec, short)
        if len(c) != 1:
            raise AnalysisBroken('%s::%s: %d definitions (template body not instantiated?)' % (rec, short, len(c)))
        return c[0]

    def paths(self, f):
        return self.eng.paths(f)['paths']

    def loc(self, f, line=None):
        return '%s:%s' % (f['file'], line or f['line'])

    def sn(self, rec):
        return rec.replace(NS, '')

    # ================================================================== C19
    def c19(self):
        asserts = []
        for rec, approx, r in self.classes:
            sn = self.sn(rec)
            # PURE.NOMUT (record level)
            mut = [f['name'] for f in r['fields'] if f['mutable']]
            self.sink.emit('C19.NOMUT', 'ok' if not mut else 'violated', '%s has no mutable data member' % sn, '%s:%s' % (r['file'], r['line']), 'mutable: %s' % mut)
            for f in r['fields']:
                ct = f['type']['ct']
                okv = f['type'].get('bits') is not None or ct in ('double', 'float') or re.match(r'std::vector<double', ct) or re.match(r'std::array<double, \d+>', ct)
                self.sink.emit('C19.CONST', 'ok' if okv else 'violated', '%s::%s has value semantics' % (sn, f['name']), '%s:%s' % (r['file'], f['line']), 'type %s' % ct)
            for m in r['methods']:
                if m['kind'] in ('copy_ctor', 'move_ctor', 'copy_assign', 'move_assign'):
                    self.memberwise(sn, r, m)
            st = [x for x in r['statics'] if not x['constexpr']]
            self.sink.emit('C19.NOMUT', 'ok' if not st else 'violated', '%s has no non-constant static member' % sn, '%s:%s' % (r['file'], r['line']), '%s' % [x['name'] for x in st])
            t = r['name']
            it = re.search(r'<(.*)>$', t).group(1) or 'unsigned long'
            asserts += [('%s callable on const' % sn, 'std::is_invocable_r_v<%s, const %s &, std::mt19937_64 &>' % (it, t), ''),
                        ('%s GetCDF on const' % sn, 'std::is_invocable_r_v<double, decltype(&%s::GetCDF), const %s &, %s>' % (t, t, it), ''),
                        ('%s copyable and movable' % sn, 'std::is_copy_constructible_v<{0}> && std::is_copy_assignable_v<{0}> && std::is_move_constructible_v<{0}> && std::is_move_assignable_v<{0}>'.format(t), '')]
            # method level
            op = self.one(rec, 'operator()')
            reach = [op] + self.fns(rec, 'GetCDF') + self.fns(rec, 'GetHarmonicNum')
            for f in reach:
                self.sink.emit('C19.CONST', 'ok' if f.get('const') else 'violated', '%s::%s is a const member function' % (sn, f['short']), self.loc(f), '')
                for p in self.paths(f):
                    for e in p.events:
                        if e['kind'] == 'assign' and (self.rooted(e['path'], S('this')) or e['path'][0] == 'global'):
                            self.sink.bad('C19.NOMUT', '%s::%s writes %s' % (sn, f['short'], norm(e['path'])), self.loc(f, e['line']), 'sampling must not change the generator or global state')
                        elif e['kind'] == 'call' and e.get('obj') is not None and not e.get('const_method') and (self.rooted(e['obj'], S('this')) or e['obj'][0] == 'global'):
                            self.sink.bad('C19.NOMUT', '%s::%s calls non-const %s on %s' % (sn, f['short'], e['name'], norm(e['obj'])), self.loc(f, e['line']), '')
                        elif e['kind'] == 'cast' and (e.get('const_cast') or (e.get('cstyle') and 'const' in (e.get('from') or '') and 'const' not in (e.get('to') or ''))):
                            self.sink.bad('C19.NOMUT', '%s::%s casts const away' % (sn, f['short']), self.loc(f, e['line']), '%s -> %s' % (e.get('from'), e.get('to')))
                        elif e['kind'] == 'read' and e['path'][0] == 'global':
                            g = self.fx.globals.get(e['path'][1])
                            if g is not None and not g.get('const'):
                                self.sink.bad('C19.DEPS', '%s::%s reads the non-constant global %s' % (sn, f['short'], e['path'][1]), self.loc(f), '')
                self.sink.ok('C19.NOMUT', '%s::%s writes nothing reachable from this or from globals' % (sn, f['short']), self.loc(f), '%d paths' % len(self.paths(f)))
            # static-storage locals anywhere in the sampling path (GetCDF, GetHarmonicNum): hidden state
            for f in reach[1:]:
                for p in self.paths(f):
                    statics = set()
                    for e in p.events:
                        if e['kind'] == 'decl' and e['storage'] != 'auto':
                            statics.add(e['name'])
                            self.sink.bad('C19.TLS', '%s::%s %s local %s' % (sn, f['short'], e['storage'], e['name']), self.loc(f, e['line']),
                                          'a %s local in the sampling path carries state between calls and between generators' % e['storage'])
                        elif e['kind'] == 'assign_local' and e['path'][2] in statics:
                            self.sink.bad('C19.NOMUT', '%s::%s writes the static-storage local %s' % (sn, f['short'], e['path'][2]), self.loc(f, e['line']), '')
            # ... and in the construction path (constructors and their helpers): a buffer that survives the call is harmless
            # only when it is emptied before its first use; emptied at the end, it keeps the values of a construction that
            # left by an exception (allocation failure), and the next generator built on that thread is made from them
            skip = set(f['key'] for f in reach)
            for f in self.fx.functions.values():
                if f.get('record') != rec or f['key'] in skip or f.get('defaulted'):
                    continue
                for p in self.paths(f):
                    for e in p.events:
                        if e['kind'] != 'decl' or e['storage'] == 'auto':
                            continue
                        ct = e['type'].get('ct', '')
                        if ct.startswith('const ') or e.get('constexpr'):
                            continue
                        uses = [x for x in p.events if x['seq'] > e['seq'] and
                                ((x['kind'] == 'call' and isinstance(x.get('obj'), tuple) and x['obj'][:1] == ('var',) and x['obj'][-1] == e['name']) or
                                 (x['kind'] == 'assign_local' and x['path'][2] == e['name']) or
                                 (x['kind'] == 'read' and x['path'][0] == 'var' and x['path'][-1] == e['name']))]
                        first = next((x for x in uses if x['kind'] != 'read' or True), None)
                        reset = first is not None and ((first['kind'] == 'call' and first.get('name') in ('clear', 'operator=', 'assign')) or first['kind'] == 'assign_local')
                        self.sink.emit('C19.TLS', 'ok' if reset else 'violated', '%s::%s %s local %s is emptied before its first use' % (sn, f['short'], e['storage'], e['name']),
                                       self.loc(f, e['line']),
                                       'reset at line %s' % first.get('line') if reset else
                                       'a %s local of type %s is used (line %s) with whatever an earlier construction on this thread left in it, also one that ended by an exception: '
                                       'equal parameters no longer give equal tables' % (e['storage'], ct, first.get('line') if first else '?'))
            # PURE.TLS / PURE.DEPS on operator()
            eng_param = S('&' + op['params'][0]['name']) if op['params'] else None
            seen_tls = 0
            for p in self.paths(op):
                tls_vars = {}
                for e in p.events:
                    if e['kind'] == 'decl' and e['storage'] != 'auto':
                        ct = e['type'].get('ct', '')
                        good = e['storage'] == 'thread_local' and ct.startswith(TLS_ALLOW)
                        # the object is built once per thread: its constructor arguments must not depend on the generator
                        val = e.get('value')
                        if isinstance(val, tuple) and val and val[0] == 'obj':
                            constinit = all(is_const(a) or (isinstance(a, tuple) and a and a[0] == 'f') for a in val[3])
                        elif isinstance(val, tuple) and val and val[0] == 'initlist':
                            constinit = all(is_const(a) or (isinstance(a, tuple) and a and a[0] == 'f') for a in val[1])
                        else:
                            constinit = val is None and not e.get('has_init')
                        self.sink.emit('C19.TLS', 'ok' if (good and constinit) else 'violated', '%s::operator() %s local %s' % (sn, e['storage'], e['name']), self.loc(op, e['line']),
                                       'type %s, constructed from constants' % ct if good and constinit else
                                       'a %s local of type %s keeps state between calls / is shared between threads' % (e['storage'], ct))
                        seen_tls += 1
                        tls_vars[e['name']] = ct
                    elif e['kind'] == 'decl' and e['type'].get('ct', '').startswith(TLS_ALLOW):
                        tls_vars[e['name']] = e['type']['ct']     # an automatic distribution object carries no state at all
                    elif e['kind'] == 'call':
                        nm = e.get('name') or ''
                        rec_c = e.get('record') or ''
                        if e.get('in_root'):
                            okc = rec_c == rec and e.get('const_method')
                            why = 'own const method'
                        elif rec_c.startswith(TLS_ALLOW) and nm == 'operator()':
                            okc = e['obj'][0] == 'var' and e['obj'][2] in tls_vars and e.get('raw_args') is not None and \
                                any(show(a) == show(('lv', ('deref', eng_param), None)) or show(a) == '*&' + op['params'][0]['name'] for a in e['raw_args'])
                            why = 'distribution drawn from the caller\'s engine'
                        elif rec_c.startswith(('std::vector<double', 'std::array<double')) and nm in ('at', 'size', 'operator[]', 'back', 'front', 'empty'):
                            okc = e.get('const_method') and self.rooted(e['obj'], S('this'))
                            why = 'read of the table'
                        elif rec_c.startswith(('std::vector<double', 'std::array<double')) and nm in ('cbegin', 'cend', 'begin', 'end', 'data') and e.get('const_method'):
                            okc = self.rooted(e['obj'], S('this'))
                            why = 'iterator into the table'
                        elif nm.startswith('operator') and (rec_c.startswith('__gnu_cxx::__normal_iterator<const double') or
                                                            '__normal_iterator<const double' in (e.get('callee') or '')):
                            okc, why = True, 'arithmetic / dereference of a const iterator into the table'
                        elif nm in MATH or nm.startswith('IntegralToFloating'):
                            okc, why = True, '<cmath>'
                        else:
                            okc, why = False, ''
                        if not okc:
                            self.sink.bad('C19.DEPS', '%s::operator() calls %s' % (sn, nm or e.get('callee', '?')[:60]), self.loc(op, e['line']),
                                          'callee outside the allowed set (own const methods, table reads, the stateless distribution on the caller\'s engine, <cmath>)')
            self.sink.ok('C19.TLS', '%s::operator() static-storage locals examined' % sn, self.loc(op), '%d (none is fine: automatic locals carry no state)' % seen_tls)
            self.sink.ok('C19.DEPS', '%s::operator() resolved callees within the allowed set' % sn, self.loc(op), '')
            # CTOR.REJECT
            ctors = [f for f in self.fns(rec, r['name'].split('::')[-1].split('<')[0]) if f['kind'] == 'ctor' and len(f['params']) == 3]
            if len(ctors) != 1:
                self.sink.unsup('C19.REJECT', sn, r['file'], 'three-argument constructor not found')
                continue
            c = ctors[0]
            pmin, pmax = [S('p:' + q['name'], q['type'].get('bits') or 64) for q in c['params'][:2]]
            n_ret = n_thr = 0
            for p in self.paths(c):
                t = None
                for cond, o, _ in p.conds:
                    v = self.max_lt_min(cond, pmin, pmax)
                    if v is not None:
                        t = (o if v else not o)
                # the bounds are compared as values of IntType: a narrowing / sign-changing conversion before the test
                # (say, a helper taking int64_t) changes which pairs are rejected
                tests = [e for e in p.events if e['kind'] == 'cond' and self.max_lt_min(e['value'], pmin, pmax) is not None]
                convs = [e for e in p.events if e['kind'] == 'intconv' and self.unext(e['value']) in (pmin, pmax) and tests and e['seq'] < tests[0]['seq']]
                if convs:
                    e = convs[0]
                    self.sink.bad('C19.REJECT', '%s(min, max, alpha) compares the bounds in their own type' % sn, self.loc(c, e.get('line')),
                                  'a bound is converted from %d-bit %s to %d-bit %s before max < min is tested: the order of the two values is not preserved for every pair' %
                                  (e['from'][0], 'signed' if e['from'][1] else 'unsigned', e['to'][0], 'signed' if e['to'][1] else 'unsigned'))
                if p.end == 'throw':
                    n_thr += 1
                    self.sink.emit('C19.REJECT', 'ok' if t is True else 'violated', '%s(min, max, alpha) throws exactly when max < min' % sn, self.loc(c, p.ret_line),
                                   'throw guarded by max < min' if t is True else 'throw on a path where max < min is not established')
                else:
                    n_ret += 1
                    self.sink.emit('C19.REJECT', 'ok' if t is False else 'violated', '%s(min, max, alpha) returns only when !(max < min)' % sn, self.loc(c, p.ret_line),
                                   'normal exit dominated by the test' if t is False else 'a generator is produced without the max < min test (or although max < min)')
            if not n_thr:
                self.sink.bad('C19.REJECT', '%s(min, max, alpha) rejects max < min' % sn, self.loc(c), 'no throwing path')
            # a member function of a *live* generator that rejects its arguments by throwing leaves the generator as it was
            # (a constructor that throws leaves no object behind; a Reset(min, max, alpha) that assigns first and validates afterwards
            # leaves a generator that was "rejected" and changed all the same)
            for f in self.fx.functions.values():
                if f.get('record') != rec or f['kind'] in ('ctor', 'dtor') or self.eng.private_helper(f):
                    continue
                for p in self.paths(f):
                    if p.end != 'throw':
                        continue
                    dirty = [e for e in p.events if (e['kind'] == 'assign' and self.rooted(e['path'], S('this'))) or
                             (e['kind'] == 'call' and e.get('obj') is not None and not e.get('const_method') and self.rooted(e['obj'], S('this')))]
                    self.sink.emit('C19.REJECT', 'ok' if not dirty else 'violated', '%s::%s rejects without changing the generator' % (sn, f['short']), self.loc(f, p.ret_line),
                                   'nothing written before the throw' if not dirty else
                                   'members are written (line %s) before the exception is thrown: the generator keeps answering, with parameters that were rejected' % dirty[0].get('line'))
        incs = ['dbgroup/random/zipf.hpp']
        w = run_witness(self.fx.flags, incs, asserts, compilers=('clang++', 'g++'))
        for tag, expr, _ in asserts:
            self.sink.emit('C19.CONST', 'ok' if w[tag] else 'violated', tag, 'witness TU', 'static_assert(%s)' % expr[:160])

    def memberwise(self, sn, r, m):
        """A copy / moved-to generator holds the parameters and the table of its source: the operation is defaulted, or its body
        gives every data member the value the same member of the source had on entry."""
        what = '%s %s gives every member the value of the same member of its source' % (sn, m['kind'])
        where = '%s:%s' % (r['file'], m['line'])
        if m['deleted']:
            self.sink.bad('C19.CONST', what, where, 'deleted: generators cannot be copied / moved any more')
            return
        if m['defaulted']:
            self.sink.ok('C19.CONST', what, where, 'defaulted over value-semantic members')
            return
        f = self.fx.functions.get(m['key'])
        if f is None or not f.get('params'):
            self.sink.unsup('C19.CONST', what, where, 'user-provided, body not found in the analysed units')
            return
        src = S('&' + f['params'][0]['name'])
        n = 0
        for p in self.paths(f):
            if p.end == 'throw':
                continue
            n += 1
            # a self-assignment test (this == &obj) leaves everything in place: same values
            if any(isinstance(c, tuple) and c[0] == 'op' and ((c[1] == '==' and o) or (c[1] == '!=' and not o)) and {show(c[2]), show(c[3])} == {'this', show(src)} for c, o, _ in p.conds):
                continue
            for fld in r['fields']:
                name = fld['name']
                want = show(('field', src, name))
                gv = None
                for e in p.events:
                    if e['kind'] == 'assign' and e['path'] == ('field', S('this'), name):
                        gv = e['value']
                    elif e['kind'] == 'init' and e.get('member') == name:
                        gv = e['value']
                    elif e['kind'] == 'call' and e.get('obj') == ('field', S('this'), name) and e.get('name') in ('operator=', 'assign', 'swap'):
                        a = e.get('args') or ()
                        gv = a[0] if a and e.get('name') != 'assign' else None
                # a copy / a braced wrapper / an lvalue of the source member all stand for its value
                for _ in range(4):
                    if isinstance(gv, tuple) and gv and gv[0] == 'initlist' and len(gv[1]) == 1:
                        gv = gv[1][0]
                    elif isinstance(gv, tuple) and gv and gv[0] == 'obj' and len(gv[3]) == 1:
                        gv = gv[3][0]
                    elif isinstance(gv, tuple) and gv and gv[0] == 'lv':
                        gv = S(show(gv[1]))
                    else:
                        break
                got = show(gv) if isinstance(gv, tuple) else (None if gv is None else str(gv))
                good = got is not None and got == want
                self.sink.emit('C19.CONST', 'ok' if good else 'violated', what, self.loc(f, p.ret_line),
                               '%s <- %s' % (name, got) if good else 'member %s of the target ends as %s, not as the source\'s %s: the copy / moved-to generator draws different values' % (name, got, name))
        if not n:
            self.sink.unsup('C19.CONST', what, where, 'no returning path')

    def rooted(self, path, base):
        while isinstance(path, tuple) and path:
            if path[0] == 'field':
                if path[1] == base:
                    return True
                b = path[1]
                path = b[1] if isinstance(b, tuple) and b and b[0] == 'addr' else None
            elif path[0] in ('index',):
                path = path[1]
            elif path[0] == 'deref':
                return path[1] == base
            else:
                return False
        return False

    def max_lt_min(self, c, pmin, pmax):
        """True if c is (max < min), False if it is its negation, None otherwise"""
        neg = False
        while isinstance(c, tuple) and c and c[0] == 'not':
            c = c[1]
            neg = not neg
        if not (isinstance(c, tuple) and c and c[0] == 'op'):
            return None
        a, b = self.unext(c[2]), self.unext(c[3])
        r = None
        if c[1] == '<' and (a, b) == (pmax, pmin) or c[1] == '>' and (a, b) == (pmin, pmax):
            r = True
        elif c[1] == '>=' and (a, b) == (pmax, pmin) or c[1] == '<=' and (a, b) == (pmin, pmax):
            r = False
        if r is None:
            return None
        return r != neg

    def unext(self, v):
        while isinstance(v, tuple) and v and v[0] in ('ext',):
            v = v[1]
        return v

    # ================================================================== C06
    def c06(self):
        for rec, approx, r in self.classes:
            sn = self.sn(rec)
            fld = {f['name']: f for f in r['fields']}
            table = [f for f in r['fields'] if re.match(r'std::(vector|array)<double', f['type']['ct'])]
            if len(table) != 1:
                self.sink.unsup('C06.PIN', sn, r['file'], 'CDF table member not unique')
                continue
            tab = table[0]['name']
            tobj = ('field', S('this'), tab)
            # C06.BUILD: the table is built on an empty table.  A constructor starts with one; any other member that (re)builds it
            # - a setter calling UpdateCDF, a Reset(...) - must empty it first, else the new CDF is appended behind the old one:
            # positions beyond the range become reachable and the values no longer follow the parameters
            if 'vector' in table[0]['type']['ct']:
                members = [f for f in self.fx.functions.values() if f.get('record') == rec and f['kind'] not in ('dtor',)]
                builders = {}      # key -> (function, line of the first append / call that appends without a reset before it)
                changed = True
                while changed:
                    changed = False
                    for f in members:
                        if f['key'] in builders or f['kind'] == 'ctor':
                            continue
                        for p in self.paths(f):
                            app = [e for e in p.events if e['kind'] == 'call' and
                                   ((e.get('obj') == tobj and e.get('name') in ('emplace_back', 'push_back', 'insert', 'resize')) or e.get('callee') in builders)]
                            if not app:
                                continue
                            reset = [e for e in p.events if e['kind'] == 'call' and e.get('obj') == tobj and e.get('name') in ('clear', 'operator=', 'assign', 'swap') and e['seq'] < app[0]['seq']]
                            if not reset:
                                builders[f['key']] = (f, app[0])
                                changed = True
                                break
                n_pub = 0
                for f, e0 in builders.values():
                    if f.get('access') == 0:
                        n_pub += 1
                        self.sink.bad('C06.BUILD', '%s::%s rebuilds the table from an empty table' % (sn, f['short']), self.loc(f, e0.get('line')),
                                      'a public member appends to the table (directly or through %s) without emptying it first: the new CDF lands behind the old one, positions beyond '
                                      'max - min become reachable and GetCDF keeps answering from the old values' % (e0.get('name') or 'a helper'))
                if not n_pub:
                    self.sink.ok('C06.BUILD', '%s: the table is appended to only during construction (or after being emptied)' % sn, '%s:%s' % (r['file'], r['line']),
                                 'appending helpers: %s' % sorted(f['short'] for f, _ in builders.values()))
            # Z.DEFAULT: what a default-constructed generator holds when its constructor returns: the members' values after
            # the (possibly delegated) member initialisers, default member initialisers included
            dc = [f for f in self.fx.functions.values() if f.get('record') == rec and f['kind'] == 'ctor' and len(f['params']) == 0]
            upd = self.one(rec, 'UpdateCDF')
            if not dc:
                self.sink.unsup('C06.DEFAULT', '%s()' % sn, '%s:%s' % (r['file'], r['line']), 'default constructor not found')
            for c in dc:
                for p in self.paths(c):
                    if p.end == 'throw':
                        self.sink.bad('C06.DEFAULT', '%s() can throw' % sn, self.loc(c, p.ret_line), '')
                        continue
                    vals = {}
                    for e in p.events:
                        if e['kind'] == 'init' and e.get('member'):
                            vals[e['member']] = e['value']
                        elif e['kind'] == 'assign' and e['path'][0] == 'field' and e['path'][1] == S('this'):
                            vals[e['path'][2]] = e['value']

                    def zero(v):
                        v = self.unext(v)
                        return is_const(v) and v[1] == 0
                    okd = zero(vals.get('min_')) and zero(vals.get('max_')) and \
                        (not approx or (is_const(self.unext(vals.get('n_'))) and self.unext(vals.get('n_'))[1] == 1))
                    self.sink.emit('C06.DEFAULT', 'ok' if okd else 'violated', '%s default parameters describe the single bin [0, 0]' % sn, self.loc(c, p.ret_line),
                                   'after %s(): %s' % (sn, {k: norm(vals.get(k)) for k in ('min_', 'max_', 'n_') if k in vals}))
                    calls = [e for e in p.events if e['kind'] == 'call' and e.get('callee') == upd['key']]
                    inits = [i for i, e in enumerate(p.events) if e['kind'] == 'init' and e.get('member')]
                    after = bool(calls) and (not inits or calls[0]['seq'] > p.events[inits[-1]]['seq'])
                    self.sink.emit('C06.DEFAULT', 'ok' if (len(calls) == 1 and after) else 'violated', '%s() builds the table from those parameters' % sn, self.loc(c),
                                   'one UpdateCDF call after the members are initialised' if len(calls) == 1 and after else '%d UpdateCDF call(s)' % len(calls))
            # UpdateCDF: single-bin branch and pin
            op = self.one(rec, 'operator()')
            nbins = self.nbins_expr(rec, approx)
            pins = 0
            for p in self.paths(upd):
                tw = [e for e in p.events if (e['kind'] == 'call' and e.get('obj') == tobj and not e.get('const_method')) or
                      (e['kind'] == 'assign' and self.is_elem_of(e['path'], tobj, p))]
                single = self.cond_le1(p, nbins)
                if single is True:
                    # (emptying the table first - clear(), fill(0.0) - changes nothing about what it holds in the end)
                    cleared = bool(tw) and tw[0]['kind'] == 'call' and tw[0]['name'] in ('clear', 'fill')
                    while tw and tw[0]['kind'] == 'call' and tw[0]['name'] in ('clear', 'fill'):
                        tw = tw[1:]
                    good = len(tw) == 1 and tw[0]['kind'] == 'call' and tw[0]['name'] == 'operator=' and self.is_one_list(tw[0]['args'][0] if tw[0]['args'] else None)
                    if not good and cleared and len(tw) == 1 and tw[0]['kind'] == 'call' and tw[0]['name'] in ('emplace_back', 'push_back') and tw[0]['args']:
                        a0 = tw[0]['args'][0]
                        good = isinstance(a0, tuple) and a0 and a0[0] == 'f' and a0[1] == 1.0
                    self.sink.emit('C06.DEFAULT', 'ok' if good else 'violated', '%s::UpdateCDF single bin: table = {1.0}' % sn, self.loc(upd, p.ret_line), '')
                    continue
                if single is None:
                    self.sink.unsup('C06.PIN', '%s::UpdateCDF' % sn, self.loc(upd, p.ret_line), 'single-bin test not recognised on this path')
                    continue
                big = self.cond_big(p, rec) if approx else False
                if approx and big is None:
                    self.sink.unsup('C06.SWITCH', '%s::UpdateCDF' % sn, self.loc(upd, p.ret_line), 'exact/approximate switch not recognised')
                    continue
                if approx and big:
                    # more bins than the table: no pin; the reader divides by denom_ (Z.DENOM)
                    continue
                last = tw[-1] if tw else None
                good = last is not None and last['kind'] == 'assign' and fval(last['value']) == 1.0 and self.pin_index_ok(last, p, nbins, tobj)
                pins += 1
                self.sink.emit('C06.PIN', 'ok' if good else 'violated', '%s::UpdateCDF pins the last bin to exactly 1.0 after the last other write' % sn, self.loc(upd, last['line'] if last else p.ret_line),
                               'last table write: %s' % (('%s = %s' % (norm(last['path']), norm(last['value']))) if last is not None and last['kind'] == 'assign' else (last or {}).get('name')))
            if not pins:
                self.sink.unsup('C06.PIN', '%s::UpdateCDF' % sn, self.loc(upd), 'no multi-bin path found')
            # Z.ACCESS
            for f in [op] + self.fns(rec, 'GetCDF'):
                for p in self.paths(f):
                    for e in p.events:
                        if e['kind'] == 'call' and e.get('obj') == tobj and e['name'] in ('operator[]', 'data', 'begin', 'end'):
                            self.sink.bad('C06.ACCESS', '%s::%s unchecked table access %s' % (sn, f['short'], e['name']), self.loc(f, e['line']),
                                          'a position outside the table must not turn into a silently wrong value: use at()')
            self.sink.ok('C06.ACCESS', '%s table reads reachable from operator() are bounds-checked' % sn, self.loc(op), '')
            # search range and result
            cur = self.cursors(op)
            for p in self.paths(op):
                r_ = p.ret
                mn = S('this->min_', fld['min_']['type'].get('bits'))
                good = isinstance(r_, tuple) and r_[0] == 'op' and r_[1] == '+' and mn in (self.unext(r_[2]), self.unext(r_[3]))
                self.sink.emit('C06.RANGE', 'ok' if good else 'violated', '%s::operator() returns min + position' % sn, self.loc(op, p.ret_line), 'returns %s' % norm(r_)[:80])
                if good and cur is not None:
                    # the position is the one the bounded search ended on (the final value of its lower cursor)
                    pos = self.unext(r_[3]) if self.unext(r_[2]) == mn else self.unext(r_[2])
                    while isinstance(pos, tuple) and pos and pos[0] in ('ext', 'trunc', 'cvt'):
                        pos = pos[1]
                    lo_final = p.store.get(('var', cur[0]['did'], cur[0]['name']))
                    while isinstance(lo_final, tuple) and lo_final and lo_final[0] in ('ext', 'trunc', 'cvt'):
                        lo_final = lo_final[1]
                    same = lo_final is not None and (pos == lo_final or (is_const(pos) and is_const(lo_final) and pos[1] == lo_final[1]))
                    if not same and lo_final is not None:
                        from pathsim import mk_op
                        plus1 = mk_op('+', lo_final, C(1, 64), 64)
                        if pos == plus1 or (is_const(pos) and is_const(plus1) and pos[1] == plus1[1]):
                            # the final "u > CDF(lower) => lower + 1" correction applied to the returned value instead of the cursor
                            for e in p.events:
                                v = e.get('value') if e['kind'] == 'cond' else None
                                if isinstance(v, tuple) and v and v[0] == 'op' and v[1] == '>' and e['outcome'] is True and \
                                        any(x == lo_final or (is_const(x) and is_const(lo_final) and x[1] == lo_final[1]) for x in [self.unext(y) for y in self.walk_args(v[3])]):
                                    same = True
                    self.sink.emit('C06.RANGE', 'ok' if same else 'violated', '%s::operator() returns the position the bounded search ended on' % sn, self.loc(op, p.ret_line),
                                   'position %s' % norm(pos)[:70] if same else
                                   'the returned position %s is not the final lower cursor of the search over [0, bins - 1] (%s): its range is not established by the search' % (norm(pos)[:70], norm(lo_final)[:40]))
            decls = {}
            for p in self.paths(op)[:1]:
                for e in p.events:
                    if e['kind'] == 'decl' and e.get('has_init') and e['storage'] == 'auto':
                        decls[e['name']] = e
            # (declared order: uniform variate, begin, end) -- check the initial search interval
            narrow = None
            if self.cursors(op) is None:
                ps_ = self.paths(op)
                assigned_ = {e['path'][2] for p in ps_ for e in p.events if e['kind'] == 'assign_local' and e['path'][0] == 'var'}
                ints_ = {e['name']: e for p in ps_ for e in p.events if e['kind'] == 'decl' and e['storage'] == 'auto' and e['name'] in assigned_ and
                         e['type'].get('bits') and e['type'].get('bits') < 64 and 'value' in e}
                if len(ints_) >= 2:
                    narrow = sorted(ints_)
            if narrow:
                # integer cursors narrower than 64 bits: begin + end wraps for tables of more than half the type's range
                d0 = ints_[narrow[0]]
                self.sink.bad('C06.RANGE', '%s::operator() searches positions [0, bins - 1]' % sn, self.loc(op, d0.get('line')),
                              'the search cursors %s are %d-bit %s integers: begin + end is not computed in a type that holds every sum of two positions' %
                              (narrow, d0['type'].get('bits'), 'signed' if d0['type'].get('signed') else 'unsigned'))
            elif self.cursors(op) is None:
                # no pair of integer cursors (an iterator-based or library search): the interval rules do not apply to this shape
                self.sink.unsup('C06.RANGE', '%s::operator() searches positions [0, bins - 1]' % sn, self.loc(op),
                                'the search does not use two signed 64-bit position cursors: its interval is not decided')
            else:
                ends = self.search_bounds(op, rec, approx, tobj)
                self.sink.emit('C06.RANGE', 'ok' if ends else 'violated', '%s::operator() searches positions [0, bins - 1]' % sn, self.loc(op), '')
            self.search_rules(rec, sn, op, tobj, approx)
            if approx:
                self.approx_rules(rec, r, sn, tab, tobj, upd)

    def nbins_expr(self, rec, approx):
        return None

    def cond_le1(self, p, nbins):
        for c, o, _ in p.conds:
            if isinstance(c, tuple) and c[0] == 'op' and c[1] == '<=' and is_const(self.unext(c[3])) and self.unext(c[3])[1] == 1:
                return o
            if isinstance(c, tuple) and c[0] == 'op' and c[1] == '<' and is_const(self.unext(c[3])) and self.unext(c[3])[1] == 2:
                return o
            if isinstance(c, tuple) and c[0] == 'op' and c[1] == '==' and is_const(self.unext(c[3])) and self.unext(c[3])[1] == 1:
                return o
        return None

    def cond_big(self, p, rec):
        """True on the many-bins (approximate) branch, False on the small branch; also records the
        largest bin count the small branch accepts (writer threshold)"""
        for c, o, _ in p.conds:
            if isinstance(c, tuple) and c[0] == 'op' and c[1] in ('<=', '<', '>', '>=') and is_const(self.unext(c[3])) and 'n_' in show(c[2]) and self.unext(c[3])[1] > 2:
                v = self.unext(c[3])[1]
                small_max = {'<=': v, '<': v - 1, '>': v, '>=': v - 1}[c[1]]
                self.writer_thresholds.setdefault(rec, set()).add(small_max)
                small = o if c[1] in ('<=', '<') else (not o)
                return not small
        return None

    def exact_bins(self, rec):
        for q, v in self.fx.tu_constants('zipf.cpp').items():
            if q == rec + '::kExactBinNum':
                return v
        return None

    def is_one_list(self, v):
        if isinstance(v, tuple) and v and v[0] == 'lv':
            v = v[1]
        s = repr(v)
        return isinstance(v, tuple) and v and v[0] in ('initlist', 'obj') and ("('f', 1.0)" in s or "('f', 1)" in s) and s.count("('f',") == 1

    def is_elem_of(self, path, tobj, p):
        """path is *ret of at()/back()/operator[] on the table"""
        if path[0] == 'deref' and isinstance(path[1], tuple) and path[1] and path[1][0] == 's':
            for e in p.events:
                if e['kind'] == 'call' and e.get('result') == path[1] and e.get('obj') == tobj:
                    return True
        if path[0] == 'index' and path[1] == tobj:
            return True
        return False

    def pin_index_ok(self, asg, p, nbins, tobj):
        path = asg['path']
        call = None
        if path[0] == 'deref':
            for e in p.events:
                if e['kind'] == 'call' and e.get('result') == path[1] and e.get('obj') == tobj:
                    call = e
        if call is None:
            return False
        if call['name'] == 'back':
            return True
        if call['name'] not in ('at', 'operator[]') or not call['args']:
            return False
        idx = self.unext(call['args'][0])
        # idx == count - 1 where count is the loop bound of the fill loop / the reserve argument / n_
        if not (isinstance(idx, tuple) and idx[0] == 'op' and idx[1] == '-' and is_const(self.unext(idx[3])) and self.unext(idx[3])[1] == 1):
            return False
        cnt = self.unext(idx[2])
        bounds = set()
        for c, o, _ in p.conds:
            if isinstance(c, tuple) and c[0] == 'op' and c[1] == '<' and not o:
                bounds.add(self.unext(c[3]))
        for e in p.events:
            if e['kind'] == 'call' and e.get('obj') == tobj and e['name'] == 'reserve' and e['args']:
                bounds.add(self.unext(e['args'][0]))
        if cnt in bounds:
            return True
        # approximate class: the table is a fixed array, the count is n_ (<= table size on this path)
        return 'n_' in show(cnt) and any('n_' in show(c) for c, o, _ in p.conds)

    def expand(self, node, em, depth=0):
        if isinstance(node, dict):
            if node.get('k') == 'ref' and node.get('id') in em and depth < 12:
                return self.expand(em[node['id']], em, depth + 1)
            return {k: self.expand(v, em, depth) for k, v in node.items()}
        if isinstance(node, list):
            return [self.expand(x, em, depth) for x in node]
        return node

    def cursors(self, op):
        """the two cursors of the bisection in operator() (possibly declared in an inlined helper): the 64-bit signed
        automatic variables that the search assigns; lower = the one initialised with 0.  Returns (lo decl, hi decl) events
        of one path, or None"""
        ps = self.paths(op)
        assigned = {e['path'][2] for p in ps for e in p.events if e['kind'] == 'assign_local' and e['path'][0] == 'var'}
        for p in ps:
            ds = [e for e in p.events if e['kind'] == 'decl' and e['storage'] == 'auto' and e['type'].get('bits') == 64 and e['type'].get('signed')
                  and 'value' in e and e['name'] in assigned]
            lo = next((e for e in ds if is_const(e['value']) and e['value'][1] == 0), None)
            hi = next((e for e in ds if e is not lo and not is_const(e['value'])), None)
            if lo is not None and hi is not None:
                return lo, hi
        return None

    def walk_args(self, v):
        out = []
        if isinstance(v, tuple):
            out.append(v)
            for x in v:
                if isinstance(x, tuple):
                    out.extend(self.walk_args(x))
        return out

    def returned_position(self, p, rec):
        """the position operand of `min_ + position` returned on this path (conversions stripped), or None"""
        r_ = p.ret
        if not (isinstance(r_, tuple) and r_ and r_[0] == 'op' and r_[1] == '+'):
            return None
        a, b = self.unext(r_[2]), self.unext(r_[3])
        pos = b if (isinstance(a, tuple) and a and a[0] == 's' and a[1] == 'this->min_') else a if (isinstance(b, tuple) and b and b[0] == 's' and b[1] == 'this->min_') else None
        while isinstance(pos, tuple) and pos and pos[0] in ('ext', 'trunc', 'cvt'):
            pos = pos[1]
        return pos

    def search_bounds(self, op, rec, approx, tobj):
        """the search starts on [0, bins - 1]: lower cursor 0, upper cursor = (bin count) - 1 with the bin count being n_
        (approximate class) or the size of the table (exact class); judged on the values the cursors are declared with"""
        cur = self.cursors(op)
        if cur is None:
            return False
        lo, hi = cur
        v = self.unext(hi['value'])
        if not (isinstance(v, tuple) and v and v[0] == 'op' and v[1] == '-' and is_const(self.unext(v[3])) and self.unext(v[3])[1] == 1):
            return False
        cnt = self.unext(v[2])
        if approx:
            return cnt == S('this->n_', bits_of_val(cnt)) or show(cnt) == 'this->n_'
        return isinstance(cnt, tuple) and cnt and cnt[0] == 'app' and cnt[1] == 'size' and any(isinstance(a, tuple) and a and a[0] == 'lv' and a[1] == tobj for a in cnt[2])

    def search_rules(self, rec, sn, op, tobj, approx):
        """C06.SEARCH: direction rules of the bisection (necessary for the inverse-CDF clause at, below and
        above a breakpoint).  With u the variate and P the probed position:
            u <  CDF(P)  => only the upper cursor moves, to P or P-1
            u >  CDF(P)  => only the lower cursor moves, to P+1
            u == CDF(P)  => the lower cursor becomes P and the loop is left
        after the loop: u > CDF(lower) => lower+1; the result is min + lower.
        If the loop does not have this shape nothing is emitted (the clause stays undecided)."""
        cur = self.cursors(op)
        if not cur:
            return
        lo, hi = cur[0]['name'], cur[1]['name']
        seen = {'lt': 0, 'gt': 0, 'eq': 0, 'post': 0}
        bad = []

        def cdf_probe(v):
            # CDF(P): at(table, P) / GetCDF(P)
            if isinstance(v, tuple) and v and v[0] == 'app' and v[1] in ('at', 'GetCDF', 'operator[]') and v[2]:
                a = v[2][-1]
                while isinstance(a, tuple) and a and a[0] in ('ext', 'trunc'):
                    a = a[1]
                return a
            if isinstance(v, tuple) and v and v[0] == 's' and v[1].startswith(('ret:at', 'ret:GetCDF')):
                return ('sym', v)
            return None
        for p in self.paths(op):
            evs = p.events
            in_loop = False
            i = 0
            n = len(evs)
            last_head = max([k for k, e in enumerate(evs) if e['kind'] == 'loop_head'] or [-1])
            while i < n:
                e = evs[i]
                if e['kind'] == 'cond' and isinstance(e['value'], tuple) and e['value'][0] == 'op' and e['value'][1] in ('<', '>'):
                    P = cdf_probe(e['value'][3])
                    if P is None or isinstance(P, tuple) and P and P[0] == 'sym':
                        i += 1
                        continue
                    u = e['value'][2]
                    # collect the decision of this probe: this cond and possibly the next one on the same CDF value
                    dec = {e['value'][1]: e['outcome']}
                    j = i + 1
                    if j < n and evs[j]['kind'] == 'cond' and isinstance(evs[j]['value'], tuple) and evs[j]['value'][0] == 'op' and evs[j]['value'][1] in ('<', '>') \
                            and evs[j]['value'][2] == u and evs[j]['value'][3] == e['value'][3]:
                        dec[evs[j]['value'][1]] = evs[j]['outcome']
                        j += 1
                    # assignments to the cursors until the next loop head / cond on another probe
                    k = j
                    asg = []
                    while k < n and evs[k]['kind'] not in ('loop_head', 'cond'):
                        if evs[k]['kind'] == 'assign_local' and evs[k]['path'][2] in (lo, hi):
                            asg.append(evs[k])
                        k += 1
                    inside = i < last_head or any(x['kind'] == 'loop_head' for x in evs[k:k + 1])
                    post = i > last_head and dec.keys() == {'>'} and not any(x['kind'] == 'loop_head' for x in evs[i:])
                    is_loop_probe = '<' in dec
                    from pathsim import mk_op as _mk
                    Pm1 = _mk('-', P, C(1, 64), 64)
                    Pp1 = _mk('+', P, C(1, 64), 64)

                    def same_v(a, b):
                        return a == b or (is_const(a) and is_const(b) and a[1] == b[1])
                    if is_loop_probe:
                        if dec.get('<') is True:
                            seen['lt'] += 1
                            okk = len(asg) == 1 and asg[0]['path'][2] == hi and (same_v(asg[0]['value'], Pm1) or same_v(asg[0]['value'], P))
                            if not okk:
                                bad.append(('u < CDF(P): the upper cursor must become P-1 (or P) and the lower cursor must not move', e, asg))
                        elif dec.get('>') is True:
                            seen['gt'] += 1
                            okk = len(asg) == 1 and asg[0]['path'][2] == lo and same_v(asg[0]['value'], Pp1)
                            if not okk:
                                bad.append(('u > CDF(P): the lower cursor must become P+1 and the upper cursor must not move', e, asg))
                        elif dec.get('>') is False:
                            seen['eq'] += 1
                            leaves = not any(x['kind'] == 'loop_head' for x in evs[k:])
                            lo_asg = [a for a in asg if a['path'][2] == lo]
                            hi_asg = [a for a in asg if a['path'][2] == hi]
                            # the lower cursor becomes P and the search stops: by leaving the loop, or by closing the interval (upper = P)
                            closes = len(hi_asg) == 1 and same_v(hi_asg[0]['value'], P)
                            okk = len(lo_asg) == 1 and same_v(lo_asg[0]['value'], P) and ((leaves and not hi_asg) or closes)
                            if not okk:
                                bad.append(('u == CDF(P): the lower cursor must become P and the search must stop', e, asg))
                    elif '>' in dec and i > last_head:
                        # post-loop correction on CDF(lower)
                        seen['post'] += 1
                        rpos = self.returned_position(p, rec)
                        if dec['>']:
                            okk = (len(asg) == 1 and asg[0]['path'][2] == lo and (asg[0].get('how') == '++' or same_v(asg[0]['value'], Pp1))) or \
                                (not asg and rpos is not None and same_v(rpos, Pp1))      # the correction is applied to the value returned
                        else:
                            okk = not asg and (rpos is None or same_v(rpos, P) or not (isinstance(rpos, tuple) and rpos[0] == 'op'))
                        if not okk:
                            bad.append(('after the loop: u > CDF(lower) => lower+1, otherwise unchanged', e, asg))
                    i = k
                    continue
                i += 1
        if not (seen['lt'] and seen['gt'] and seen['eq']):
            return    # shape not recognised: undecided, no obligation
        key = '%s::operator() bisection moves the right cursor in the right direction' % sn
        if bad:
            why, e, asg = bad[0]
            self.sink.bad('C06.SEARCH', key, self.loc(op, e.get('line')), '%s; found %s' % (why, [(a['path'][2], norm(a['value'])[:60]) for a in asg]))
        else:
            self.sink.ok('C06.SEARCH', key, self.loc(op), 'probes below / above / equal: %d / %d / %d, post-loop corrections: %d' % (seen['lt'], seen['gt'], seen['eq'], seen['post']))

    def approx_rules(self, rec, r, sn, tab, tobj, upd):
        k = self.exact_bins(rec)
        wt = self.writer_thresholds.get(rec, set())
        self.sink.emit('C06.SWITCH', 'ok' if wt == {k} else ('violated' if wt else 'unsupported'), '%s::UpdateCDF fills and pins the table for every bin count up to kExactBinNum' % sn, self.loc(upd),
                       'writer takes the exact branch for n <= %s; the reader reads the table for id < %s' % (sorted(wt), k) if wt else 'switch not recognised')
        tf = next(f for f in r['fields'] if f['name'] == tab)
        m = re.search(r',\s*(\d+)>$', tf['type']['ct'])
        ext = int(m.group(1)) if m else None
        self.sink.emit('C06.SWITCH', 'ok' if (k is not None and ext == k) else 'violated', '%s table extent equals kExactBinNum' % sn, '%s:%s' % (r['file'], tf['line']), 'extent %s, kExactBinNum %s' % (ext, k))
        g = self.one(rec, 'GetCDF')
        hn = self.one(rec, 'GetHarmonicNum')
        idp = S('p:' + g['params'][0]['name'], g['params'][0]['type'].get('bits') or 64)
        for p in self.paths(g):
            thr = None
            for c, o, _ in p.conds:
                neg = False
                while isinstance(c, tuple) and c and c[0] == 'not':
                    c, neg = c[1], not neg
                if not (isinstance(c, tuple) and c[0] == 'op' and c[1] in ('<', '<=', '>', '>=')):
                    continue
                a, b, opr = self.unext(c[2]), self.unext(c[3]), c[1]
                if a != idp and b == idp:
                    a, b, opr = b, a, {'<': '>', '<=': '>=', '>': '<', '>=': '<='}[opr]   # K op id  ->  id op' K
                if a != idp or not is_const(b):
                    continue
                # normalise to (id < T) == below
                t = b[1] + (1 if opr in ('<=', '>') else 0)
                below = (o != neg) if opr in ('<', '<=') else ((not o) != neg)
                thr = (t, below)
            if thr is None:
                self.sink.unsup('C06.SWITCH', '%s::GetCDF' % sn, self.loc(g, p.ret_line), 'switch not recognised')
                continue
            self.sink.emit('C06.SWITCH', 'ok' if thr[0] == k else 'violated', '%s::GetCDF switches at kExactBinNum' % sn, self.loc(g, p.ret_line), 'threshold %s' % thr[0])
            if thr[1]:
                rr = p.ret
                good = isinstance(rr, tuple) and rr[0] == 'app' and rr[1] == 'at' and idp in [self.unext(a) for a in rr[2]]
                self.sink.emit('C06.SWITCH', 'ok' if good else 'violated', '%s::GetCDF(id < K) reads table[id]' % sn, self.loc(g, p.ret_line), norm(rr)[:80])
            else:
                rr = p.ret
                good = isinstance(rr, tuple) and rr[0] == 'op' and rr[1] == '/' and isinstance(rr[2], tuple) and rr[2][0] == 'app' and rr[2][1] == 'GetHarmonicNum' and \
                    any(self.unext(a) == ('op', '+', idp, C(1, idp[2]), idp[2]) for a in rr[2][2]) and 'denom_' in show(rr[3])
                self.sink.emit('C06.DENOM', 'ok' if good else 'violated', '%s::GetCDF(id >= K) = H(id + 1) / denom_' % sn, self.loc(g, p.ret_line), norm(rr)[:100])
        # denom_ = H(n_), n_ = max - min + 1
        for c in [f for f in self.fx.functions.values() if f.get('record') == rec and f['kind'] == 'ctor' and len(f['params']) == 3]:
            pmin, pmax = [S('p:' + q['name'], q['type'].get('bits') or 64) for q in c['params'][:2]]
            for p in self.paths(c):
                if p.end == 'throw':
                    continue
                ini = {e['member']: e['value'] for e in p.events if e['kind'] == 'init'}
                nv = ini.get('n_')
                b = pmin[2]
                want_n = ('op', '+', ('op', '-', pmax, pmin, b), C(1, b), b)
                self.sink.emit('C06.DENOM', 'ok' if nv == want_n else 'violated', '%s n_ = max - min + 1' % sn, self.loc(c), norm(nv))
                dv = ini.get('denom_')
                good = isinstance(dv, tuple) and dv[0] == 'app' and dv[1] == 'GetHarmonicNum' and any(a == nv for a in dv[2])
                self.sink.emit('C06.DENOM', 'ok' if good else 'violated', '%s denom_ = H(n_): the last bin evaluates to x / x' % sn, self.loc(c), norm(dv)[:80])
                # nothing denom_ was derived from changes afterwards (the reader evaluates H(id + 1) / denom_ with the members as they are then)
                ddef = [e['seq'] for e in p.events if (e['kind'] == 'init' and e.get('member') == 'denom_') or
                        (e['kind'] == 'assign' and e['path'] == ('field', S('this'), 'denom_'))]
                for e in p.events:
                    if e['kind'] == 'assign' and e['path'][0] == 'field' and e['path'][1] == S('this') and e['path'][2] in ('pow_', 'n_', 'min_', 'max_', 'alpha_') \
                            and ddef and e['seq'] > ddef[-1]:
                        self.sink.bad('C06.DENOM', '%s constructor rewrites %s after denom_ was computed' % (sn, e['path'][2]), self.loc(c, e['line']),
                                      'denom_ = H(n_) was evaluated with the previous value: GetCDF(n_ - 1) = H(n_) / denom_ is no longer exactly 1, the last bin can be overshot')
                ok_order = list(ini).index('n_') < list(ini).index('denom_') and list(ini).index('pow_') < list(ini).index('denom_') if 'pow_' in ini and 'denom_' in ini and 'n_' in ini else False
                self.sink.emit('C06.DENOM', 'ok' if ok_order else 'violated', '%s n_ and pow_ are initialised before denom_ uses them' % sn, self.loc(c), 'member order %s' % list(ini))
        # members other than the constructors that change a parameter (a SetAlpha, a Reset ...): everything derived from the
        # parameters is recomputed afterwards, in dependency order - n_ after min_ / max_, pow_ after alpha_, denom_ = H(n_) after
        # n_ and pow_, and the table last.  (A complete exchange with another generator - swap - keeps both consistent.)
        params = ('min_', 'max_', 'alpha_', 'n_', 'pow_', 'denom_')
        allf = [x['name'] for x in r['fields']]
        upd_key = self.one(rec, 'UpdateCDF')['key']
        for f in self.fx.functions.values():
            if f.get('record') != rec or f['kind'] in ('ctor', 'dtor') or self.eng.private_helper(f):
                continue
            if f.get('copy_assign') or f.get('move_assign'):
                continue      # a user-provided assignment replaces all members together: judged by the memberwise rule (C19.CONST)
            for p in self.paths(f):
                if p.end == 'throw':
                    continue
                wr = {}
                for e in p.events:
                    if e['kind'] == 'assign' and e['path'][0] == 'field' and e['path'][1] == S('this') and e['path'][2] in params:
                        wr[e['path'][2]] = e
                if not wr:
                    continue
                key = '%s::%s leaves the parameters and everything derived from them consistent' % (sn, f['short'])
                gp = [q for q in f['params'] if q.get('isref') and q['type'].get('ct', '').replace('const ', '').strip().split('<')[0] == rec.split('<')[0]]
                if len(gp) == 1 and len(f['params']) == 1:
                    other = S('&' + gp[0]['name'])
                    scal = [x for x in allf if x in params]
                    if all(p.store.get(('field', S('this'), x)) == S(show(('field', other, x)), bits_of_val(p.store.get(('field', S('this'), x)))) or
                           show(p.store.get(('field', S('this'), x))) == show(('field', other, x)) for x in scal) and \
                       all(show(p.store.get(('field', other, x))) == 'this->' + x for x in scal):
                        self.sink.ok('C06.DENOM', key, self.loc(f, p.ret_line), 'complete exchange with another generator')
                        continue
                seq = lambda n_: wr[n_]['seq'] if n_ in wr else -1
                why = []
                fin = lambda n_: p.store.get(('field', S('this'), n_), S('this->' + n_))
                if ('min_' in wr or 'max_' in wr):
                    if seq('n_') < max(seq('min_'), seq('max_')):
                        why.append('n_ is not recomputed after min_ / max_ changed')
                    else:
                        v = self.unext(wr['n_']['value'])
                        ok_n = isinstance(v, tuple) and v[0] == 'op' and v[1] == '+' and is_const(self.unext(v[3])) and self.unext(v[3])[1] == 1 and \
                            isinstance(self.unext(v[2]), tuple) and self.unext(v[2])[0] == 'op' and self.unext(v[2])[1] == '-' and \
                            show(self.unext(self.unext(v[2])[2])) == show(self.unext(fin('max_'))) and show(self.unext(self.unext(v[2])[3])) == show(self.unext(fin('min_')))
                        if not ok_n:
                            why.append('n_ = %s is not max_ - min_ + 1 of the new bounds' % norm(v)[:60])
                if 'alpha_' in wr and seq('pow_') < seq('alpha_'):
                    why.append('pow_ is not recomputed after alpha_ changed')
                if any(x in wr for x in ('alpha_', 'pow_', 'n_', 'min_', 'max_')):
                    last = max(seq(x) for x in ('alpha_', 'pow_', 'n_'))
                    dv = wr['denom_']['value'] if 'denom_' in wr else None
                    if seq('denom_') < last:
                        why.append('denom_ = H(n_) is not recomputed after n_ / pow_ changed: GetCDF(n_ - 1) is no longer exactly 1, and the values differ from a generator constructed with the same parameters')
                    elif not (isinstance(dv, tuple) and dv[0] == 'app' and dv[1] == 'GetHarmonicNum' and any(show(self.unext(a)) == show(self.unext(fin('n_'))) for a in dv[2])):
                        why.append('denom_ = %s is not GetHarmonicNum(n_)' % norm(dv)[:60])
                ups = [e for e in p.events if (e['kind'] in ('call', 'inline_begin')) and e.get('callee') == upd_key]
                if not ups or ups[-1]['seq'] < max(e['seq'] for e in wr.values()):
                    why.append('the table is not rebuilt (UpdateCDF) after the last parameter changed')
                self.sink.emit('C06.DENOM', 'ok' if not why else 'violated', key, self.loc(f, p.ret_line),
                               'recomputed in dependency order' if not why else '; '.join(why))


def analyse(fx, eng):
    _cache = fx.__dict__.setdefault('_rule_cache', {})
    k = 'zipf'
    if k not in _cache:
        sink = Sink()
        r = ZipfRules(fx, eng, sink)
        r.c19()
        r.c06()
        _cache[k] = (r, sink)
    return _cache[k]
