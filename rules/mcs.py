"""MCSLock rules (DESIGN.md 3: MCS.PUB / MCS.INH / MCS.WAIT / MCS.CLR, FIFO.TAIL, NODE.*,
LIVE.PUBSTORE).  State is distributed over the lock word (LOCK: flags of the tail group +
pointer to its queue node) and the queue-node words (NODE: flags inherited from the
predecessor group + link to the successor).

Assumptions taken from the protocol invariant (stated once, used as preconditions of the
per-write obligations; they are themselves established by the arrival / inheritance rules):
  * a releaser's own contribution (X bit, SIX bit, one S unit) is present in the word it
    clears it from (LOCK while its group is the tail, else the successor's node),
  * a granted X owner's own node has no flags left, a granted SIX owner's node has no X/SIX.
"""
from facts import AnalysisBroken
from pathsim import S, C, show, symbols, is_const
from absword import Layout, Eval, W, INF, feasible_envs
from locks import (LockModel, Sink, RowEval, word_symbols, is_write, short, loc_of, subst, has_acquire,
                   has_release, RMW_OP, free_word_symbols, NS)

MODE_OF_GUARD = {'SGuard': 'S', 'SIXGuard': 'SIX', 'XGuard': 'X'}


def strip_ptr(v):
    while isinstance(v, tuple) and v and v[0] == 'ptrint':
        v = v[1]
    return v


class Ctx:
    """per-path classification of queue nodes and of the word symbols read from them"""

    def __init__(self, rules, fn, p, own):
        self.r, self.fn, self.p, self.own = rules, fn, p, own
        self.kind_of_sym = {}    # word symbol -> object kind it was read from
        self.ev_of_sym = {}
        for _round in range(3):
            # widened variables inherit the kind of the CAS they are the expected operand of
            for e in p.events:
                if e['kind'] == 'atomic' and e['op'] == 'cas' and isinstance(e['expected'], tuple) and e['expected'][0] == 's':
                    if e['expected'] not in self.kind_of_sym or self.kind_of_sym[e['expected']] in (None, 'OTHER'):
                        self.kind_of_sym[e['expected']] = self.kind(e['obj'])
                        self.ev_of_sym.setdefault(e['expected'], e)
            for e in p.events:
                if e['kind'] != 'atomic':
                    continue
                k = self.kind(e['obj'])
                for key in ('result', 'observed'):
                    if e.get(key) is not None:
                        self.kind_of_sym[e[key]] = k
                        self.ev_of_sym[e[key]] = e

    def base_sym(self, base):
        """if `base` (an address value) is a pointer field taken from a word symbol: that symbol"""
        b = strip_ptr(base)
        if isinstance(b, tuple) and b and b[0] == 'op' and b[1] == '&' and is_const(b[3]) and b[3][1] == self.r.layout.RMASK:
            b = strip_ptr(b[2])
        if isinstance(b, tuple) and b and b[0] == 's' and b in self.kind_of_sym:
            return b
        return None

    def kind(self, obj):
        if not (isinstance(obj, tuple) and obj[0] == 'field' and obj[2] == self.r.word):
            return None
        if self.r.lock_obj_kind(obj, self.fn) == 'LOCK':
            return 'LOCK'
        base = strip_ptr(obj[1])
        if self.own is not None and base == strip_ptr(self.own):
            return 'OWN'
        s = self.base_sym(base)
        if s is not None:
            src = self.kind_of_sym.get(s)
            return {'OWN': 'NEXT', 'LOCK': 'VIA_LOCK', 'VIA_LOCK': 'VIA_LOCK_NEXT'}.get(src, 'OTHER')
        return 'OTHER'


class MCSRules(LockModel):
    def __init__(self, facts, eng, sink):
        super().__init__(facts, eng, 'MCSLock')
        self.sink = sink
        self.sites = []
        self.discover_release()
        self.discover_layout()
        self.ev = Eval(self.layout, 'pointer')
        self.node_field = {}
        for g in ('SGuard', 'SIXGuard', 'XGuard'):
            c = [f['name'] for f in self.guards[g]['fields'] if f['pointer'] and f['name'] != self.ptr_field[g]]
            if len(c) != 1:
                raise AnalysisBroken('MCSLock::%s: queue-node member not unique (%s)' % (g, c))
            self.node_field[g] = c[0]
        R = self.roles
        for mode, name in (('S', 'LockS'), ('SIX', 'LockSIX'), ('X', 'LockX')):
            R[self.method(self.rec_name, name)['key']] = ('acquire', mode)
        for g, mode in MODE_OF_GUARD.items():
            R[self.release[g]] = ('release', mode)
        R[self.method(self.guards['SIXGuard']['name'], 'UpgradeToX')['key']] = ('upgrade', 'X')
        R[self.method(self.guards['XGuard']['name'], 'DowngradeToSIX')['key']] = ('downgrade', 'SIX')
        st = [x for x in self.rec['statics'] if 'unique_ptr' in x['type'].get('ct', '')]
        self.tls = st[0] if len(st) == 1 else None

    # ------------------------------------------------------------------ discovery
    def discover_release(self):
        for g in ('SGuard', 'SIXGuard', 'XGuard'):
            d = [f for f in self.fns.values() if f.get('record') == self.guards[g]['name'] and f['kind'] == 'dtor']
            if len(d) != 1:
                raise AnalysisBroken('MCSLock::%s: destructor not found' % g)
            callees = set()
            for p in self.paths(d[0])['paths']:
                for e in p.events:
                    if e['kind'] == 'call' and e.get('record') == self.rec_name:
                        callees.add(e['callee'])
            if len(callees) != 1:
                raise AnalysisBroken('MCSLock::%s::~: expected one release function, found %s' % (g, sorted(callees)))
            self.release[g] = callees.pop()

    def first_lock_write(self, fn, p):
        for e in p.events:
            if e['kind'] == 'atomic' and is_write(e) and self.lock_obj_kind(e['obj'], fn) == 'LOCK':
                return e
        return None

    def discover_layout(self):
        bits = {}
        for mode, name in (('X', 'LockX'), ('SIX', 'LockSIX'), ('S', 'LockS')):
            fn = self.method(self.rec_name, name)
            ks = set()
            for p in self.paths(fn)['paths']:
                e = self.first_lock_write(fn, p)
                if e is None:
                    continue
                v = e['desired'] if e['op'] == 'cas' else e['value']
                if isinstance(v, tuple) and v[0] == 'op' and v[1] in ('|', '+', '^') and is_const(v[3]):
                    ks.add(v[3][1])
                elif isinstance(v, tuple) and v[0] == 'op' and v[1] in ('|', '+', '^') and is_const(v[2]):
                    ks.add(v[2][1])
                elif isinstance(v, tuple) and v[0] == 's' and '~' in v[1]:
                    continue      # a loop-carried local (widened): other paths show the expression it is computed from
                else:
                    raise AnalysisBroken('MCSLock::%s: arrival write %s is not (x op constant)' % (name, show(v)))
            if len(ks) != 1:
                raise AnalysisBroken('MCSLock::%s: %d different arrival constants' % (name, len(ks)))
            k = ks.pop()
            if k == 0 or k & (k - 1):
                raise AnalysisBroken('MCSLock::%s: arrival constant %#x is not a single bit' % (name, k))
            bits[mode] = k.bit_length() - 1
        self.layout = Layout(bits['X'], bits['SIX'], bits['S'])
        if not self.layout.ok:
            raise AnalysisBroken('MCSLock: unsupported layout %s' % self.layout.describe())

    # ------------------------------------------------------------------ evaluation helper
    def envs(self, p, ctx, focus, pre=None, extra_vals=()):
        """feasible cell assignments for the word symbols connected to `focus` symbols"""
        ws = word_symbols(p)
        conds = [(c, o) for c, o, _ in p.conds]
        rel = set(focus)
        changed = True
        while changed:
            changed = False
            for c, _ in conds:
                sc = symbols(c) & ws
                if sc & rel and not sc <= rel:
                    rel |= sc
                    changed = True
        conds = [(c, o) for c, o in conds if symbols(c) & rel]
        extra = []
        if ctx.own is not None:
            extra.append(('sym', show(strip_ptr(ctx.own)), True))
        toks = self.ev.tokens_for([c for c, _ in conds] + list(extra_vals), extra=extra)
        pre = self.with_invptr(ctx, rel, pre)
        return feasible_envs(self.ev, sorted(rel), conds, toks, pre, limit=400000)

    def with_invptr(self, ctx, syms, pre):
        """INV.PTR (established by MCS.INVPTR on every write to the lock word): flags != 0 => tail != null"""
        pre = dict(pre or {})
        for s in syms:
            if ctx.kind_of_sym.get(s) == 'LOCK':
                old = pre.get(s)
                pre[s] = (lambda o: (lambda w: (w.rest != ('c', 0) or self.flagless(w)) and (o is None or o(w))))(old)
        return pre

    def own_tok(self, ctx):
        return ('sym', show(strip_ptr(ctx.own)), True)

    @staticmethod
    def contrib_present(mode):
        return {'X': lambda w: w.x == 1 and w.six == 0,
                'SIX': lambda w: w.six == 1 and w.x == 0,
                'S': lambda w: w.s[0] >= 1 and w.x == 0}[mode]

    @staticmethod
    def minus(w, mode):
        if mode == 'X':
            return W(0, w.six, w.s, w.rest)
        if mode == 'SIX':
            return W(w.x, 0, w.s, w.rest)
        return W(w.x, w.six, (w.s[0] - 1, w.s[1] - 1 if w.s[1] < INF else INF), w.rest)

    @staticmethod
    def flagless(w):
        return w.x == 0 and w.six == 0 and w.s == (0, 0)

    @staticmethod
    def same_word(a, b, rest=True):
        if not isinstance(a, W) or not isinstance(b, W):
            return None
        for x, y in ((a.x, b.x), (a.six, b.six), (a.s, b.s)) + (((a.rest, b.rest),) if rest else ()):
            if x is None or y is None:
                return None
            if x != y:
                return False
        return True

    # ------------------------------------------------------------------ driver
    def analyse(self):
        for key, fn in sorted(self.fns.items()):
            role = self.roles.get(key)
            if role is None and self.eng.private_helper(fn):
                continue      # a helper: analysed in the context of its callers
            res = self.paths(fn)
            paths = res['paths']
            fn['_feasible_paths'] = paths
            self.mask_check(fn, paths)
            for p in paths:
                for e in p.events:
                    if e['kind'] == 'atomic':
                        self.sites.append((fn, p, e))
            if role is None:
                for p in paths:
                    for e in p.events:
                        if e['kind'] == 'atomic' and is_write(e):
                            self.sink.bad('C01.WHO', '%s %s(%s)' % (short(fn['name']), e['op'], show(e['obj'])), loc_of(e),
                                          'atomic write outside the acquire/release/convert functions')
                    for e in p.events:
                        if e['kind'] == 'delete':
                            self.sink.bad('C12.UAR', '%s deletes a queue node' % short(fn['name']), '%s:%s' % (fn['file'], e['line']), '')
                continue
            if res['cuts'] and not paths:
                self.sink.unsup('MCS.PATHS', short(fn['name']), fn['file'], 'no complete path')
            getattr(self, 'role_' + role[0])(fn, role[1], paths)
        self.who_may_call()
        self.check_spins()
        self.lock_type_rule()
        self.check_tls()

    # ------------------------------------------------------------------ acquire
    def role_acquire(self, fn, mode, paths):
        if mode == 'S':
            return self.acquire_s(fn, paths)
        g = {'SIX': 'SIXGuard', 'X': 'XGuard'}[mode]
        name = short(fn['name'])
        L = self.layout
        n_pred = n_nopred = 0
        for p in paths:
            loc = '%s:%s' % (fn['file'], p.ret_line)
            arr = self.first_lock_write(fn, p)
            if arr is None:
                self.sink.bad('MCS.PUB', '%s arrival' % name, loc, 'path returns without announcing the request on the lock word')
                continue
            v = arr['value'] if arr['op'] != 'cas' else arr['desired']
            ptrs = [s for s in symbols(v) if s[2] == 64]
            own = None
            for s in ptrs:
                own = s
            if own is None:
                self.sink.unsup('MCS.PUB', '%s arrival' % name, loc_of(arr), 'queue node not identified in %s' % show(v))
                continue
            ctx = Ctx(self, fn, p, own)
            # FIFO.TAIL: unconditional swap
            uncond = arr['op'] == 'exchange'
            if arr['op'] == 'cas':
                # a CAS loop that swaps in a value independent of the word it replaces, with no condition on that word
                ws0 = word_symbols(p)
                dep = symbols(arr['desired']) & ws0
                tested = [c for c, o, _ in p.conds if arr['expected'] in symbols(c)]
                uncond = not dep and not tested
            self.sink.emit('C11.TAIL', 'ok' if uncond else 'violated', '%s arrival is an unconditional swap of the tail' % name,
                           loc_of(arr), 'operation %s%s' % (arr['op'], '' if uncond else ': the swap depends on the current word, later requests can overtake'))
            # written value = own node | own mode flag
            wv = self.ev.ev(v, {})
            want = W(1 if mode == 'X' else 0, 1 if mode == 'SIX' else 0, (0, 0), self.own_tok(ctx))
            self.sink.emit('MCS.PUB', 'ok' if self.same_word(wv, want) else 'violated', '%s publishes own node | %s flag' % (name, mode), loc_of(arr),
                           'written %r, expected %r' % (wv, want))
            # exactly one write to LOCK
            lw = [e for e in p.events if e['kind'] == 'atomic' and is_write(e) and ctx.kind(e['obj']) == 'LOCK']
            self.sink.emit('MCS.PUB', 'ok' if len(lw) == 1 else 'violated', '%s one arrival write per path' % name, loc, 'found %d' % len(lw))
            cur = arr.get('result')
            if cur is None and arr['op'] == 'cas' and isinstance(arr['expected'], tuple) and arr['expected'][0] == 's':
                cur = arr['expected']
            if cur is None:
                self.sink.unsup('MCS.INH', name, loc_of(arr), 'arrival does not return the previous word')
                continue
            self.acq_site('C08.ACQ', fn, p, arr, 'arrival %s certifies the no-predecessor grant' % arr['op'])
            # own-node writes: before publication anything; after publication only RMWs (LIVE.PUBSTORE)
            own_w = [e for e in p.events if e['kind'] == 'atomic' and is_write(e) and ctx.kind(e['obj']) == 'OWN']
            for e in own_w:
                if e['seq'] > arr['seq'] and e['op'] == 'store':
                    self.sink.bad('C02.PUBSTORE', '%s store(own node) after publication' % name, loc_of(e),
                                  'plain store to the own queue node after its address was published on the lock word: a successor that '
                                  'links itself with an RMW in between is erased (owner and successor then wait for each other for ever)')
            if not any(e['seq'] > arr['seq'] and e['op'] == 'store' for e in own_w):
                self.sink.ok('C02.PUBSTORE', '%s own node after publication' % name, loc_of(arr), 'only RMWs touch the published node')
            # inheritance: flags of own node == flags of the previous lock word, for every cell
            self.inherit(fn, p, ctx, arr, own_w, cur, name)
            # link + wait
            tail_w = [e for e in p.events if e['kind'] == 'atomic' and is_write(e) and ctx.kind(e['obj']) == 'VIA_LOCK']
            haspred = self.pred_exists(p, ctx, cur)
            if haspred is None:
                self.sink.unsup('MCS.WAIT', name, loc, 'path does not test whether a predecessor exists')
                continue
            if haspred:
                n_pred += 1
                good = len(tail_w) == 1 and tail_w[0]['op'] == 'fetch_add' and self.same_word(self.ev.ev(tail_w[0]['value'], {}), W(0, 0, (0, 0), self.own_tok(ctx)))
                self.sink.emit('MCS.LINK', 'ok' if good else 'violated', '%s links itself behind the predecessor' % name,
                               loc_of(tail_w[0]) if tail_w else loc, 'one fetch_add(own node) on the predecessor\'s node' if good else 'found %s' % [(e['op'], show(e['value'])) for e in tail_w])
                if tail_w:
                    self.rel_site('C08.LINK', fn, p, tail_w[0], 'link must be a release (the successor\'s node contents are read through it)')
                    # from the moment it is linked, the predecessor (or the last member of its group) hands over by an RMW on the own
                    # node and decides from the value it finds whether shared members still refer to its own node: the inherited state
                    # is complete before the link
                    late = [e for e in own_w if e['seq'] > tail_w[0]['seq']]
                    self.sink.emit('MCS.LINK', 'ok' if not late else 'violated', '%s completes its own node before it links itself behind the predecessor' % name,
                                   loc_of(late[0]) if late else loc_of(tail_w[0]),
                                   'every write to the own node precedes the link' if not late else
                                   '%s on the own node after the link: a predecessor that releases in between finds the node without the inherited state, '
                                   'recycles its own node under the shared members that still use it, or its hand-over is applied to a half-written word' % late[0]['op'])
                self.wait_check(fn, p, ctx, mode, name, arr, tail_w)
            else:
                n_nopred += 1
                self.sink.emit('MCS.LINK', 'ok' if not tail_w else 'violated', '%s no predecessor: nothing linked' % name, loc, '')
            # returned guard
            rg = self.ret_guard(p)
            good = rg and rg['guard'] == g and rg['fields'].get(self.ptr_field[g]) == S('this') and strip_ptr(rg['fields'].get(self.node_field[g])) == strip_ptr(own)
            self.sink.emit('C07.FACTORY', 'ok' if good else 'violated', '%s returns owning %s{this, own node}' % (name, g), loc, 'returned %s' % show(p.ret))
            self.node_acquired(fn, p, own, published=True, name=name)
        if not n_pred or not n_nopred:
            self.sink.unsup('MCS.WAIT', name, fn['file'], 'expected a path with and a path without predecessor')

    def pred_exists(self, p, ctx, cur):
        tok0 = ('c', 0)
        verdict = None
        try:
            for env, und in self.envs(p, ctx, [cur]):
                r = env[cur].rest
                v = (r != tok0)
                if verdict is None:
                    verdict = v
                elif verdict != v:
                    return None
        except OverflowError:
            return None
        return verdict

    def inherit(self, fn, p, ctx, arr, own_w, cur, name):
        """abstractly replay the writes to the own node; at the end its flags must equal the
        flags of the word the arrival replaced"""
        bad = None
        n = 0
        for env, und in self.envs(p, ctx, [cur]):
            n += 1
            word = None
            for e in own_w:
                if e['op'] == 'store':
                    word = self.ev.ev(e['value'], env)
                elif e['op'] in RMW_OP and word is not None:
                    env2 = dict(env)
                    env2[S('__own__')] = word
                    word = self.ev.ev(('op', RMW_OP[e['op']], S('__own__'), e['value'], 64), env2)
                else:
                    word = None
            c = env[cur]
            if not isinstance(word, W) or None in (word.x, word.six) or word.s is None:
                bad = ('U', 'own node contents not evaluable (%r)' % (word,))
            elif (word.x, word.six, word.s) != (c.x, c.six, c.s):
                bad = ('V', 'own node flags %r differ from the replaced lock word %r' % (word, c))
                break
        key = '%s own node inherits the flags of the word it replaced' % name
        if n == 0:
            self.sink.unsup('MCS.INH', key, loc_of(arr), 'no feasible state')
        elif bad is None:
            self.sink.ok('MCS.INH', key, loc_of(arr), 'X, SIX and S of the own node = those of the exchanged word on all %d cells' % n)
        elif bad[0] == 'V':
            self.sink.bad('MCS.INH', key, loc_of(arr), bad[1])
        else:
            self.sink.unsup('MCS.INH', key, loc_of(arr), bad[1])

    def wait_check(self, fn, p, ctx, mode, name, arr, tail_w):
        """after the link the path must certify, by an acquire read of the own node, that the
        conflicting inherited flags are gone"""
        loads = [e for e in p.events if e['kind'] == 'atomic' and e['op'] == 'load' and ctx.kind(e['obj']) == 'OWN' and e['seq'] > arr['seq']]
        if not loads:
            self.sink.bad('MCS.WAIT', '%s waits for the predecessor' % name, '%s:%s' % (fn['file'], p.ret_line),
                          'a predecessor exists but the path never reads the own node before returning')
            return
        last = loads[-1]
        sym = last['result']
        n, bad = 0, None
        for env, und in self.envs(p, ctx, [sym]):
            n += 1
            w = env[sym]
            need = [('X', w.x, 0), ('SIX', w.six, 0)] + ([('S', w.s, (0, 0))] if mode == 'X' else [])
            for nm, got, want in need:
                if got != want:
                    bad = ('U' if und else 'V', 'granted while the own node still has %s=%s (%r)' % (nm, got, w))
            if bad and bad[0] == 'V':
                break
        key = '%s grant only after the inherited %s are cleared' % (name, 'X, SIX and S' if mode == 'X' else 'X and SIX')
        if n == 0:
            self.sink.unsup('MCS.WAIT', key, loc_of(last), 'no feasible state')
        elif bad is None:
            self.sink.ok('MCS.WAIT', key, loc_of(last), 'exit condition of the wait implies it on all %d cells' % n)
            self.acq_site('C08.ACQ', fn, p, last, 'wait load certifies that the predecessors released')
            if mode == 'X':
                self.wait_exact(fn, p, ctx, last, name, lambda w: w.x == 0 and w.six == 0 and w.s == (0, 0), 'X, SIX and S of the predecessors are clear')
            else:
                self.wait_exact(fn, p, ctx, last, name, lambda w: w.x == 0 and w.six == 0, 'X and SIX of the predecessors are clear (shared holders are compatible)')
        elif bad[0] == 'V':
            self.sink.bad('MCS.WAIT', key, loc_of(last), bad[1])
        else:
            self.sink.unsup('MCS.WAIT', key, loc_of(last), bad[1])
        if tail_w and last['seq'] < tail_w[0]['seq']:
            self.sink.bad('MCS.WAIT', '%s wait after link' % name, loc_of(last), 'the own node is read before the request is linked')

    # ---- LockS
    def acquire_s(self, fn, paths):
        name = short(fn['name'])
        g = 'SGuard'
        n_new = n_join = 0
        for p in paths:
            loc = '%s:%s' % (fn['file'], p.ret_line)
            lw = [e for e in p.events if e['kind'] == 'atomic' and is_write(e) and self.lock_obj_kind(e['obj'], fn) == 'LOCK']
            if len(lw) != 1 or lw[0]['op'] != 'cas':
                self.sink.bad('MCS.PUB', '%s one certified arrival write per path' % name, loc,
                              'found %s' % [(e['op'], e['line']) for e in lw])
                continue
            arr = lw[0]
            # the fresh node: operand of release()/new at the top
            fresh = None
            for e in p.events:
                if e['kind'] == 'new' and e['type'] == self.rec_name:
                    fresh = e['result']
                elif e['kind'] == 'call' and e.get('name') == 'release' and e.get('obj') == ('global', self.rec_name + '::' + (self.tls or {}).get('name', '')):
                    fresh = e['result']
            if fresh is None:
                self.sink.unsup('C12.ACQ', name, loc, 'fresh queue node not identified')
                continue
            ctx = Ctx(self, fn, p, fresh)
            r = RowEval(self.ev, p, arr)
            if not r.supported:
                self.sink.unsup('MCS.PUB', name, loc_of(arr), 'certified value is not a read result')
                continue
            # classify the arrival: from the all-zero word (new group) or join
            kinds = set()
            bad = None
            n = 0
            toks_extra = [self.own_tok(ctx)]
            for pre, post, env, und in self.row_combos(r, ctx):
                n += 1
                zero = self.flagless(pre) and pre.rest == ('c', 0)
                if zero:
                    kinds.add('new')
                    want = W(0, 0, (1, 1), self.own_tok(ctx))
                else:
                    kinds.add('join')
                    want = W(pre.x, pre.six, (pre.s[0] + 1, pre.s[1] + 1 if pre.s[1] < INF else INF), pre.rest)
                    if pre.rest == ('c', 0):
                        bad = ('V', 'shared request joins a word without a tail node (%r)' % pre)
                sw = self.same_word(post, want)
                if sw is False:
                    bad = ('U' if und else 'V', 'arrival writes %r from %r, expected %r' % (post, pre, want))
                elif sw is None and bad is None:
                    bad = ('U', 'written word not evaluable')
            key = '%s arrival: +1 S on the current tail word, or own node|S from the free word' % name
            if n == 0:
                self.sink.unsup('MCS.PUB', key, loc_of(arr), 'no feasible state')
                continue
            if bad is None:
                self.sink.ok('MCS.PUB', key + (' [%s]' % '/'.join(sorted(kinds))), loc_of(arr), 'holds on all %d cells' % n)
            elif bad[0] == 'V':
                self.sink.bad('MCS.PUB', key, loc_of(arr), bad[1])
            else:
                self.sink.unsup('MCS.PUB', key, loc_of(arr), bad[1])
            if len(kinds) != 1:
                self.sink.unsup('MCS.PUB', name, loc_of(arr), 'path does not separate the free-word case from the join case')
                continue
            kind = kinds.pop()
            rg = self.ret_guard(p)
            if kind == 'new':
                n_new += 1
                good = rg and rg['guard'] == g and rg['fields'].get(self.ptr_field[g]) == S('this') and strip_ptr(rg['fields'].get(self.node_field[g])) == strip_ptr(fresh)
                self.sink.emit('C07.FACTORY', 'ok' if good else 'violated', '%s (new group) returns owning SGuard{this, own node}' % name, loc, 'returned %s' % show(p.ret))
                self.node_acquired(fn, p, fresh, published=True, name=name + ' (new group)')
                self.acq_site('C08.ACQ', fn, p, arr, 'arrival CAS certifies the free word')
                self.sink.ok('MCS.WAIT', '%s (new group) nothing to wait for' % name, loc_of(arr), 'certified word is all-zero')
            else:
                n_join += 1
                cur = r.pre_sym
                gnode = ('op', '&', cur, C(self.layout.RMASK), 64)
                good = rg and rg['guard'] == g and rg['fields'].get(self.ptr_field[g]) == S('this') and strip_ptr(rg['fields'].get(self.node_field[g])) == gnode
                self.sink.emit('C07.FACTORY', 'ok' if good else 'violated', '%s (join) returns owning SGuard{this, node of the joined group}' % name, loc,
                               'returned %s' % show(p.ret))
                self.node_acquired(fn, p, fresh, published=False, name=name + ' (join)')
                self.join_wait(fn, p, ctx, arr, cur, name)
        if not n_new or not n_join:
            self.sink.unsup('MCS.PUB', name, fn['file'], 'expected a new-group path and a join path')

    def row_combos(self, r, ctx, assume=None, pre=None):
        ws = word_symbols(r.path)
        ws.add(r.pre_sym)
        conds = [(c, o) for c, o, _ in r.path.conds] + list(r.extra_conds)
        if r.extra_conds:
            ctx.kind_of_sym.setdefault(r.pre_sym, ctx.kind(r.e['obj']))
        rel = {r.pre_sym} | (free_word_symbols(r.post_expr) & ws)
        changed = True
        while changed:
            changed = False
            for c, _ in conds:
                sc = symbols(c) & ws
                if sc & rel and not sc <= rel:
                    rel |= sc
                    changed = True
        conds = [(c, o) for c, o in conds if symbols(c) & rel]
        toks = self.ev.tokens_for([c for c, _ in conds] + [r.post_expr], extra=[self.own_tok(ctx)] if ctx.own is not None else [])
        prem = dict(pre or {})
        if assume:
            prem[r.pre_sym] = assume
        prem = self.with_invptr(ctx, rel, prem)
        for env, und in feasible_envs(self.ev, sorted(rel), conds, toks, prem, limit=400000):
            yield env[r.pre_sym], self.ev.ev(r.post_expr, env), env, und

    def join_wait(self, fn, p, ctx, arr, cur, name):
        """a joiner is granted only after X of the joined group's head is certified clear:
        by the arrival CAS itself, by a read of LOCK while the group is still the tail, or by
        a read of the successor's node found through the group's node"""
        L = self.layout
        # candidate certifying reads, in order
        cands = [(arr, cur)]
        for e in p.events:
            if e['kind'] == 'atomic' and e['op'] == 'load' and e['seq'] > arr['seq'] and e.get('result') is not None:
                cands.append((e, e['result']))
        cert = None
        wrong_obj = None
        und_any = False
        for e, sym in reversed(cands):
            k = ctx.kind(e['obj'])
            ok_all, n = True, 0
            for env, und in self.envs(p, ctx, [sym, cur]):
                n += 1
                und_any = und_any or bool(und)
                w = env[sym]
                # in this design a joiner also waits for SIX: the head's UpgradeToX drains only the shared
                # holders *ahead* of it (its own node), not the joiners of its own group
                if w.x != 0 or w.six != 0:
                    ok_all = False
                    break
                if k == 'LOCK' and e is not arr and w.rest != env[cur].rest:
                    ok_all = False   # the word read no longer describes the joined group
                    break
            if n and ok_all and k in ('LOCK', 'VIA_LOCK_NEXT'):
                cert = (e, k)
                break
            if n and ok_all and e is cands[-1][0] and e is not arr:
                wrong_obj = (e, k)     # the last read before the grant certifies X = SIX = 0, but of another object
        key = '%s (join) granted only after X and SIX of the joined group are certified clear' % name
        if cert is None and not any(True for _ in self.envs(p, ctx, [cur])):
            return      # the path condition is contradictory over the field abstraction: not a path of the program
        if cert is None and wrong_obj is not None:
            self.sink.bad('MCS.WAIT', key, '%s:%s' % (fn['file'], wrong_obj[0]['line']),
                          'the read the grant waits on certifies X=0 and SIX=0 of %s (%s), which is neither the lock word while the group is the tail nor the '
                          'successor\'s node: the flags a joiner has to wait for are kept there' % (show(wrong_obj[0]['obj'])[:50], wrong_obj[1]))
            return
        elif cert is None:
            (self.sink.unsup if und_any else self.sink.bad)('MCS.WAIT', key, '%s:%s' % (fn['file'], p.ret_line),
                                                            'no read on the path certifies X=0 and SIX=0 for the joined group (the head\'s UpgradeToX does not wait for joiners of its own group)')
            return
        e, k = cert
        if e is not arr:
            self.wait_exact(fn, p, ctx, e, name + ' (join)', lambda w: w.x == 0 and w.six == 0 and w.s[0] >= 1,
                            'X and SIX clear (the shared count contains the waiter itself and never drains while it waits)')
        self.sink.ok('MCS.WAIT', key, loc_of(e), 'certified by the %s at line %s on %s' % (e['op'], e['line'], {'LOCK': 'the lock word (group still tail)', 'VIA_LOCK_NEXT': 'the successor\'s node'}[k]))
        self.acq_site('C08.ACQ', fn, p, e, 'read that certifies X=0 for the joined group')
        if k == 'VIA_LOCK_NEXT':
            # the successor was found through the link of the joined group's node
            s = ctx.base_sym(e['obj'][1])
            src = ctx.ev_of_sym.get(s)
            good = src is not None and ctx.base_sym(src['obj'][1]) == cur
            self.sink.emit('MCS.WAIT', 'ok' if good else 'violated', '%s (join) successor found through the joined group\'s node' % name, loc_of(e),
                           'link read from %s' % show(src['obj']) if src else 'link origin unknown')
            if src is not None:
                self.acq_site('C08.ACQ', fn, p, src, 'link read (successor node contents are read through it)')

    def wait_exact(self, fn, p, ctx, load_ev, name, enough, text):
        """C02.WAITEXACT: the exit condition of a wait holds on every state in which the flags the
        waiter must see cleared are clear; otherwise it also waits for something that is never cleared"""
        sym = load_ev['result']
        conds = [(c, o) for c, o, _ in p.conds if sym in symbols(c)]
        if not conds:
            return
        others = set()
        for c, _ in conds:
            others |= (symbols(c) & word_symbols(p)) - {sym}
        toks = self.ev.tokens_for([c for c, _ in conds], extra=[self.own_tok(ctx)] if ctx.own is not None else [])
        stuck = None
        for cell in self.ev.cells(toks):
            if not enough(cell):
                continue
            if ctx.kind_of_sym.get(sym) == 'LOCK':
                continue
            verdict = True
            for c, o in conds:
                if symbols(c) & others:
                    continue
                r = self.ev.tri(c, {sym: cell})
                if r is None:
                    verdict = None
                elif r != o:
                    verdict = False
                    break
            if verdict is False:
                stuck = cell
                break
        key = '%s wait ends as soon as %s' % (name, text.split(' (')[0])
        if stuck is not None:
            self.sink.bad('C02.WAITEXACT', key, loc_of(load_ev), 'the wait does not end on %r although %s' % (stuck, text))
        else:
            self.sink.ok('C02.WAITEXACT', key, loc_of(load_ev), 'exit condition holds on every cell with those flags clear')

    # ------------------------------------------------------------------ node life cycle (C12)
    def node_acquired(self, fn, p, node, published, name):
        tlsq = self.rec_name + '::' + (self.tls or {}).get('name', '?')
        resets = [e for e in p.events if e['kind'] == 'call' and e.get('name') == 'reset' and e.get('obj') == ('global', tlsq) and
                  e['args'] and strip_ptr(e['args'][0]) == strip_ptr(node)]
        loc = '%s:%s' % (fn['file'], p.ret_line)
        if published:
            self.sink.emit('C12.ACQ', 'ok' if not resets else 'violated', '%s published node is not handed back to the cache' % name, loc,
                           '' if not resets else 'node published on the lock word and also cached: two owners')
        else:
            self.sink.emit('C12.ACQ', 'ok' if len(resets) == 1 else 'violated', '%s unused node returns to the thread-local cache' % name, loc,
                           'found %d reset(node)' % len(resets) if len(resets) != 1 else 'tls cache reset(node)')
            if resets:
                self.after_reset(fn, p, node, resets[0], name)

    def after_reset(self, fn, p, node, reset_ev, name):
        bad = [e for e in p.events[reset_ev['seq'] + 1:] if e['kind'] == 'atomic' and isinstance(e['obj'], tuple) and e['obj'][0] == 'field'
               and strip_ptr(e['obj'][1]) == strip_ptr(node)]
        self.sink.emit('C12.UAR', 'ok' if not bad else 'violated', '%s no access to the node after it was recycled' % name,
                       loc_of(bad[0]) if bad else '%s:%s' % (fn['file'], reset_ev['line']),
                       '' if not bad else '%s on the recycled node' % bad[0]['op'])

    def check_tls(self):
        t = self.tls
        good = t is not None and t.get('tls') and 'unique_ptr' in t['type'].get('ct', '')
        self.sink.emit('C12.TLS', 'ok' if good else 'violated', 'node cache is a thread_local std::unique_ptr', '%s:%s' % (self.rec['file'], (t or {}).get('line', '?')),
                       'cached nodes die with their thread; a second reset frees the previous one (cache of one)' if good else 'static member: %s' % t)
        for fn in self.fns.values():
            for p in fn.get('_feasible_paths', []):
                for e in p.events:
                    if e['kind'] == 'delete':
                        self.sink.bad('C12.UAR', '%s deletes a queue node directly' % short(fn['name']), '%s:%s' % (fn['file'], e['line']), '')

    # ------------------------------------------------------------------ release
    def role_release(self, fn, mode, paths):
        name = short(fn['name'])
        # the own queue node: a pointer parameter, or the address of a reference parameter
        own = None
        if fn['params']:
            prm = fn['params'][0]
            own = S('&' + prm['name']) if prm.get('isref') else S('p:' + prm['name'])
        if own is None:
            self.sink.unsup('MCS.CLR', name, fn['file'], 'release function without node parameter')
            return
        n_lock = n_next = 0
        for p in paths:
            ctx = Ctx(self, fn, p, own)
            a, b = self.clear_row(fn, p, ctx, mode, name, 'REL')
            n_lock += a
            n_next += b
        if not n_lock or not n_next:
            self.sink.unsup('MCS.CLR', name, fn['file'], 'expected tail-path and successor-path releases (found %d/%d)' % (n_lock, n_next))

    def own_pre(self, mode):
        return {'X': lambda w: self.flagless(w), 'SIX': lambda w: w.x == 0 and w.six == 0, 'S': None}[mode]

    def clear_row(self, fn, p, ctx, mode, name, what):
        """the single flag write of a release / conversion path; returns (lock rows, next rows)"""
        loc = '%s:%s' % (fn['file'], p.ret_line or fn['line'])
        rows = [e for e in p.events if e['kind'] == 'atomic' and is_write(e)]
        bad_obj = [e for e in rows if ctx.kind(e['obj']) not in ('LOCK', 'NEXT')]
        for e in bad_obj:
            self.sink.bad('MCS.CLR', '%s writes %s' % (name, show(e['obj'])), loc_of(e), 'write to a word that is neither the lock word nor the successor\'s node')
        rows = [e for e in rows if ctx.kind(e['obj']) in ('LOCK', 'NEXT')]
        rule = {'REL': 'MCS.CLR', 'UPG': 'MCS.UPG', 'DOWN': 'MCS.DOWN'}[what]
        if len(rows) != 1:
            self.sink.bad('C02.HANDOFF' if what == 'REL' else 'C10.NOGAP', '%s exactly one flag write per path' % name, loc,
                          'found %d: %s' % (len(rows), [(e['op'], e['line']) for e in rows]), {'blocks': p.blocks})
            return 0, 0
        self.sink.ok('C02.HANDOFF' if what == 'REL' else 'C10.NOGAP', '%s exactly one flag write per path' % name, loc_of(rows[0]), '%s on %s' % (rows[0]['op'], ctx.kind(rows[0]['obj'])))
        e = rows[0]
        k = ctx.kind(e['obj'])
        if e['op'] == 'store':
            self.sink.bad(rule, '%s plain store' % name, loc_of(e), 'flags must be cleared by an RMW / CAS (other threads update the same word)')
            return 0, 0
        r = RowEval(self.ev, p, e)
        if not r.supported:
            self.sink.unsup(rule, name, loc_of(e), 'certified value is not a read result')
            return 0, 0
        src_mode = {'REL': mode, 'UPG': 'SIX', 'DOWN': 'X'}[what]
        contrib = self.contrib_present(src_mode)
        own_tok = self.own_tok(ctx)
        tlsq = self.rec_name + '::' + (self.tls or {}).get('name', '?')
        resets = [x for x in p.events if x['kind'] == 'call' and x.get('name') == 'reset' and x.get('obj') == ('global', tlsq)]
        reset_own = [x for x in resets if x['args'] and strip_ptr(x['args'][0]) == strip_ptr(ctx.own)]
        # preconditions per symbol
        pre = {}
        for s, kk in ctx.kind_of_sym.items():
            if kk == 'OWN' and self.own_pre(src_mode):
                pre[s] = self.own_pre(src_mode)
        if k == 'LOCK':
            assume = lambda w: (w.rest != own_tok) or contrib(w)
        else:
            assume = contrib
        n, bad, leak, early = 0, None, None, None
        for prew, post, env, und in self.row_combos(r, ctx, assume, pre):
            n += 1
            if k == 'LOCK' and prew.rest != own_tok:
                bad = ('U' if und else 'V', 'lock word rewritten although its tail is %s, not the own node (%r)' % (prew.rest, prew))
                if not und:
                    break
                continue
            if what == 'REL':
                want = self.minus(prew, mode)
                last = self.flagless(want)
                if k == 'LOCK' and last:
                    want = W(0, 0, (0, 0), ('c', 0))
            else:
                want = W(1, 0, prew.s, prew.rest) if what == 'UPG' else W(0, 1, prew.s, prew.rest)
                last = False
                if what == 'UPG' and False:
                    pass
            sw = self.same_word(post, want)
            if sw is False:
                bad = ('U' if und else 'V', 'writes %r from %r, expected %r' % (post, prew, want))
                if not und:
                    break
            elif sw is None and bad is None:
                bad = ('U', 'written word not evaluable (%r from %r)' % (post, prew))
            if what == 'REL' and not und:
                if last and not reset_own:
                    leak = 'nothing but the releaser\'s own contribution is left (%r) but the node is not recycled' % prew
                if (not last) and reset_own:
                    early = 'node recycled although other members of the group remain (%r)' % prew
        key = '%s %s on %s' % (name, {'REL': 'clears exactly its own contribution', 'UPG': 'flips SIX->X in one write', 'DOWN': 'flips X->SIX in one write'}[what],
                               {'LOCK': 'the lock word (still tail)', 'NEXT': 'the successor\'s node'}[k])
        if n == 0:
            self.sink.unsup(rule, key, loc_of(e), 'no feasible state')
        elif bad is None:
            self.sink.ok(rule, key, loc_of(e), 'holds on all %d cells' % n)
        elif bad[0] == 'V':
            self.sink.bad(rule, key, loc_of(e), bad[1])
        else:
            self.sink.unsup(rule, key, loc_of(e), bad[1])
        if what == 'REL':
            rk = '%s recycles the node exactly when it is the last member (%s path%s)' % (name, 'tail' if k == 'LOCK' else 'successor', ', recycling' if reset_own else '')
            if leak:
                self.sink.bad('C12.REL', rk, loc_of(e), 'leak: ' + leak)
            elif early:
                self.sink.bad('C12.REL', rk, loc_of(e), 'premature recycle: ' + early)
            elif n:
                self.sink.ok('C12.REL', rk, loc_of(e), 'reclaim predicate exact on all %d cells' % n)
            other_reset = [x for x in resets if x not in reset_own]
            for x in other_reset:
                self.sink.bad('C12.REL', '%s recycles a foreign node' % name, '%s:%s' % (fn['file'], x['line']), show(x['args'][0]) if x['args'] else '')
            if reset_own:
                self.after_reset(fn, p, ctx.own, reset_own[0], name)
                if reset_own[0]['seq'] < e['seq']:
                    self.sink.bad('C12.UAR', '%s recycles before clearing' % name, '%s:%s' % (fn['file'], reset_own[0]['line']), 'node handed back before the release write')
            self.rel_site('C08.REL', fn, p, e, 'write that ends the critical section')
        elif what == 'DOWN':
            self.rel_site('C08.REL', fn, p, e, 'downgrade ends the exclusive section')
        # the successor node must be found through the own node's link, after the tail test failed
        if k == 'NEXT':
            s = ctx.base_sym(e['obj'][1])
            src = ctx.ev_of_sym.get(s)
            good = src is not None and ctx.kind(src['obj']) == 'OWN'
            self.sink.emit(rule, 'ok' if good else 'violated', '%s successor found through the own node\'s link' % name, loc_of(e), '')
            if what == 'REL' and src is not None:
                # a releaser gives its node up (recycled now or by the last member): the read that sees the successor's link must
                # synchronise with the successor's linking RMW, otherwise that RMW races with the reuse / free of the node
                self.acq_site('C12.LINK', fn, p, src, 'link read of a release: the successor\'s write to this node must happen-before the node is recycled or freed', soft=True)
        if k == 'NEXT':
            self.tail_wait(fn, p, ctx, e, name)
        # SIX release / upgrade: predecessor readers drained first
        if src_mode == 'SIX' and what in ('REL', 'UPG'):
            self.drain_check(fn, p, ctx, e, name, what)
        return (1, 0) if k == 'LOCK' else (0, 1)

    def tail_wait(self, fn, p, ctx, row, name):
        """C02.TAILWAIT: a path that first found no successor link (own node's pointer field null) and then
        hands over through the successor's node must have certified, on a value read from the lock word, that
        the tail is no longer the own node; otherwise it can wait for a link that nobody will ever write."""
        own_loads = [x for x in p.events if x['kind'] == 'atomic' and x['op'] == 'load' and ctx.kind(x['obj']) == 'OWN' and x['seq'] < row['seq']]
        if not own_loads:
            return
        first = own_loads[0]['result']
        was_tail = None
        try:
            for env, und in self.envs(p, ctx, [first]):
                t = env[first].rest == ('c', 0)
                was_tail = t if was_tail is None else (was_tail and t)
        except OverflowError:
            return
        if not was_tail:
            return       # a successor was already linked when the function started: nothing to certify
        own_tok = self.own_tok(ctx)
        lock_syms = [s for s, kk in ctx.kind_of_sym.items() if kk == 'LOCK'] + \
            [s for s in sorted(p.word_syms) if s not in ctx.kind_of_sym]     # widened copies of the lock word
        certified = False
        for s in lock_syms:
            n, okk = 0, True
            try:
                for env, und in self.envs(p, ctx, [s]):
                    n += 1
                    if env[s].rest == own_tok:
                        okk = False
                        break
            except OverflowError:
                okk = False
            if n and okk:
                certified = True
                break
        key = '%s waits for a successor link only after the lock word showed another tail' % name
        if certified:
            self.sink.ok('C02.TAILWAIT', key, loc_of(row), '')
        else:
            self.sink.bad('C02.TAILWAIT', key, loc_of(row),
                          'the path reaches the successor hand-over although no value read from the lock word excludes that the own node is still '
                          'the tail: with no successor the link wait never ends')

    def drain_check(self, fn, p, ctx, row, name, what):
        loads = [e for e in p.events if e['kind'] == 'atomic' and e['op'] == 'load' and ctx.kind(e['obj']) == 'OWN' and e['seq'] < row['seq']]
        cert = None
        for e in loads:
            okk, n = True, 0
            for env, und in self.envs(p, ctx, [e['result']]):
                n += 1
                if env[e['result']].s != (0, 0):
                    okk = False
                    break
            if n and okk:
                cert = e
                break
        key = '%s waits until the shared holders ahead of it have left' % name
        if cert is None:
            self.sink.bad('MCS.DRAIN', key, loc_of(row), 'no read of the own node before the write certifies S=0')
        else:
            self.sink.ok('MCS.DRAIN', key, loc_of(cert), 'load at line %s with exit condition S=0' % cert['line'])
            if what == 'UPG':
                self.acq_site('C08.ACQ', fn, p, cert, 'drain read: the exclusive section must synchronise with the shared sections that ended')
            else:
                self.acq_site('C08.ACQ', fn, p, cert, 'drain read of the SIX release: it carries the happens-before edge of the shared sections ahead of it on to the next exclusive section')

    # ------------------------------------------------------------------ conversions
    def role_upgrade(self, fn, mode, paths):
        self.conversion(fn, paths, 'SIXGuard', 'XGuard', 'UPG')

    def role_downgrade(self, fn, mode, paths):
        self.conversion(fn, paths, 'XGuard', 'SIXGuard', 'DOWN')

    def conversion(self, fn, paths, gfrom, gto, what):
        name = short(fn['name'])
        ownf = self.own_field[gfrom]
        entry = S('this->' + ownf)
        node = S('this->' + self.node_field[gfrom])
        n_lock = n_next = 0
        for p in paths:
            loc = '%s:%s' % (fn['file'], p.ret_line)
            ent = self.truth(entry, p)
            rg = self.ret_guard(p)
            if ent is False:
                rows = [e for e in p.events if e['kind'] == 'atomic' and is_write(e)]
                good = not rows and rg is not None and rg['guard'] == gto and rg['owning'] is False
                self.sink.emit('C07.CONV', 'ok' if good else 'violated', '%s on an empty guard returns an empty guard' % name, loc, 'returned %s' % show(p.ret))
                continue
            if ent is None:
                self.sink.unsup('C07.CONV', name, loc, 'entry ownership not tested on this path')
                continue
            calls = [e for e in p.events if e['kind'] == 'call' and e.get('record') == self.rec_name and e['callee'] in self.roles]
            if calls:
                self.sink.bad('C10.NOGAP', '%s calls %s' % (name, calls[0]['name']), '%s:%s' % (fn['file'], calls[0]['line']),
                              'conversion releases / re-acquires the grant instead of converting it in place')
            final = p.store.get(('field', S('this'), ownf), entry)
            self.sink.emit('C07.CONV', 'ok' if (is_const(final) and final[1] == 0) else 'violated', '%s consumes the source guard' % name, loc,
                           'this->%s = %s at the return' % (ownf, show(final)))
            good = rg is not None and rg['guard'] == gto and rg['fields'].get(self.ptr_field[gto]) == entry and rg['fields'].get(self.node_field[gto]) == node
            self.sink.emit('C07.CONV', 'ok' if good else 'violated', '%s returns a guard owning the saved lock and node' % name, loc,
                           'returned %s (entry lock %s, entry node %s)' % (show(p.ret), show(entry), show(node)))
            ctx = Ctx(self, fn, p, node)
            a, b = self.clear_row(fn, p, ctx, 'X' if what == 'UPG' else 'SIX', name, what)
            n_lock += a
            n_next += b
        if not n_lock or not n_next:
            self.sink.unsup('MCS.CONV', name, fn['file'], 'expected tail-path and successor-path conversions (found %d/%d)' % (n_lock, n_next))
        else:
            self.sink.ok('MCS.CONV', '%s tail path and successor path analysed' % name, fn['file'], '%d + %d paths' % (n_lock, n_next))

    # ------------------------------------------------------------------ memory orders
    def acq_site(self, rule, fn, p, e, why, soft=False):
        o = e['orders'][0]
        key = '%s %s(%s) order=%s' % (short(fn['name']), e['op'], show(e['obj']) if self.lock_obj_kind(e['obj'], fn) != 'LOCK' else self.word, o)
        key = '%s %s@%s order=%s' % (short(fn['name']), e['op'], self.site_name(fn, e), o)
        good = has_acquire(o) or any(x['kind'] == 'fence' and has_acquire(x['order']) for x in p.events[e['seq'] + 1:])
        self.sink.emit('C08.ACQ' if not soft else rule, 'ok' if good else 'violated', key, loc_of(e), why + ' — needs acquire semantics')

    def rel_site(self, rule, fn, p, e, why):
        o = e['orders'][0]
        key = '%s %s@%s order=%s' % (short(fn['name']), e['op'], self.site_name(fn, e), o)
        good = has_release(o) or any(x['kind'] == 'fence' and has_release(x['order']) for x in p.events[:e['seq']])
        self.sink.emit('C08.REL', 'ok' if good else 'violated', key, loc_of(e), why + ' — needs release semantics')

    def site_name(self, fn, e):
        k = self.lock_obj_kind(e['obj'], fn)
        if k == 'LOCK':
            return 'lock word'
        return 'node ' + show(e['obj'][1])[:40]

    # ------------------------------------------------------------------ misc
    def who_may_call(self):
        for g, rel in self.release.items():
            grec = self.guards[g]['name']
            for f in self.fns.values():
                for p in f.get('_feasible_paths', []):
                    for e in p.events:
                        if e['kind'] == 'call' and e.get('callee') == rel:
                            if f.get('record') == grec and f['kind'] == 'method' and not f.get('move_assign'):
                                continue      # another member of the same guard class (an early Unlock()): its bookkeeping is C07.MEMBER
                            okf = f.get('record') == grec and (f['kind'] == 'dtor' or f.get('move_assign'))
                            key = '%s called from %s' % (short(self.facts.functions[rel]['name']), short(f['name']))
                            self.sink.emit('C07.WHO', 'ok' if okf else 'violated', key, '%s:%s' % (f['file'], e['line']),
                                           '' if okf else 'a grant may be released only by its guard\'s destructor or move assignment')

    def check_spins(self):
        # spin lambdas: the value tested is read inside the iteration
        seen = set()
        for fn in self.fns.values():
            for p in fn.get('_feasible_paths', []):
                evs = p.events
                for i, e in enumerate(evs):
                    if e['kind'] != 'spin_begin':
                        continue
                    sk = '%s spin@%s' % (short(fn['name']), e['line'])
                    if sk in seen:
                        continue
                    j = next((k for k in range(i + 1, len(evs)) if evs[k]['kind'] == 'spin_end' and evs[k]['lambda'] == e['lambda']), None)
                    if j is None:
                        continue
                    seen.add(sk)
                    inner = evs[i + 1:j]
                    ws = {x['result'] for x in inner if x['kind'] == 'atomic' and x.get('result') is not None}
                    dep = [c for c, o, ln in p.conds if symbols(c) & ws]
                    self.sink.emit('C02.SPIN', 'ok' if dep else 'violated', sk, '%s:%s' % (fn['file'], e['line']),
                                   'every iteration re-reads the word its exit condition tests' if dep else
                                   'exit condition does not depend on a value read inside the iteration')
            for it in self.paths(fn)['spin_fail']:
                for x in it:
                    if x['kind'] == 'atomic' and is_write(x):
                        self.sink.bad('C02.SPIN', '%s spin iteration writes without exiting' % short(fn['name']), loc_of(x), '')
        # hand-written loops: every cycle of the CFG contains an atomic read
        for fn in self.fns.values():
            if self.roles.get(fn['key']) is None:
                continue
            for hdr, blocks in self.loops(fn):
                has_read = False
                line = None
                for b in blocks:
                    for el in b['elems']:
                        if el['kind'] == 'stmt':
                            n = el['e']
                            line = line or n.get('line')
                            if n.get('k') == 'mcall' and n.get('method') in ('load', 'compare_exchange_weak', 'compare_exchange_strong', 'exchange') or \
                                    (n.get('k') == 'call' and self.facts.functions.get(n.get('callee')) is not None and
                                     self.eng.is_spin_function(self.facts.functions[n['callee']])):
                                has_read = True
                self.sink.emit('C02.SPIN', 'ok' if has_read else 'violated', '%s loop@block%d' % (short(fn['name']), hdr), '%s:%s' % (fn['file'], line),
                               'loop body re-reads an atomic word' if has_read else 'loop without an atomic read in its body: spins on a stale value')
        for k, f in self.facts.functions.items():
            if f['name'].startswith(NS + 'SpinWithBackoff') and f['tu'] == self.tu:
                okf = self.eng.is_spin_function(f)
                self.sink.emit('C02.SPINFN', 'ok' if okf else 'violated', 'SpinWithBackoff instance @%s' % k.split('lambda at ')[-1].split(')')[0].split('/')[-1],
                               '%s:%s' % (f['file'], f['line']), self.eng.spin_reason(f))
                if okf:
                    rk, rd = self.eng.spin_rounds(f)
                    self.sink.emit('C02.SPINFN', 'ok' if rk else ('violated' if rk is False else 'unsupported'),
                                   'SpinWithBackoff instance @%s calls its procedure in every round' % k.split('lambda at ')[-1].split(')')[0].split('/')[-1],
                                   '%s:%s' % (f['file'], f['line']), rd)

    def loops(self, fn):
        """(header, blocks of the natural loop) for each back edge"""
        bm = self.eng.block_map(fn)
        heads = self.eng.loop_headers(fn)
        preds = {}
        for b in fn['blocks']:
            for s in b['succs']:
                if s is not None:
                    preds.setdefault(s, []).append(b['id'])
        out = []
        for h in heads:
            # blocks that can reach h without leaving through h: reverse DFS from the back-edge sources
            # back-edge sources = predecessors of h reachable from h
            reach = set()
            todo = [s for s in bm[h]['succs'] if s is not None]
            while todo:
                x = todo.pop()
                if x in reach or x == h:
                    continue
                reach.add(x)
                todo.extend(s for s in bm[x]['succs'] if s is not None)
            body = {h}
            todo = [q for q in preds.get(h, []) if q in reach]
            while todo:
                x = todo.pop()
                if x in body:
                    continue
                body.add(x)
                todo.extend(q for q in preds.get(x, []) if q in reach or q == h)
            out.append((h, [bm[i] for i in sorted(body)]))
        return out
