"""OptimisticLock-only rules: C03 (SAMPLE / VERIFY / TRY), C09 (VER.*), C13 (version exit,
VerifyVersion of the composite guard).  DESIGN.md section 3."""
from facts import AnalysisBroken
from pathsim import S, C, show, symbols, is_const
from absword import W, feasible_envs
from locks import WordLockRules, RowEval, word_symbols, short, loc_of, subst, is_write, has_acquire


class OptimisticRules(WordLockRules):
    def __init__(self, facts, eng, cls, sink):
        super().__init__(facts, eng, cls, sink)
        self.vf = {}
        for g in ('OptGuard', 'CompositeGuard'):
            c = [f['name'] for f in self.guards[g]['fields'] if f['type'].get('bits') == 32 and not f['type'].get('signed')]
            if len(c) != 1:
                raise AnalysisBroken('%s::%s: version field not unique (%s)' % (cls, g, c))
            self.vf[g] = c[0]
        self.discover_xguard_versions()

    def version_field(self, g):
        return self.vf.get(g)

    # ---- XGuard: which field is the acquisition version, which the version to publish
    def discover_xguard_versions(self):
        xg = self.guards['XGuard']
        gv = self.method(xg['name'], 'GetVersion')
        sv = self.method(xg['name'], 'SetVersion')
        ps = self.paths(gv)['paths']
        r = ps[0].ret if len(ps) == 1 else None
        if not (isinstance(r, tuple) and r[0] == 's' and r[1].startswith('this->')):
            raise AnalysisBroken('XGuard::GetVersion does not return a data member')
        self.old_f = r[1][6:]
        ps = self.paths(sv)['paths']
        # the member SetVersion assigns (on every path): the version to publish; what it assigns is judged by C09.FLOW
        asg = [e for p_ in ps for e in p_.events if e['kind'] == 'assign' and e['path'][0] == 'field' and e['path'][1] == S('this')]
        targets = {e['path'][2] for e in asg}
        if len(targets) != 1 or any(len([e for e in p_.events if e['kind'] == 'assign']) != 1 for p_ in ps):
            raise AnalysisBroken('XGuard::SetVersion does not assign exactly one data member on every path')
        self.new_f = targets.pop()
        self.sv_values = [e['value'] for e in asg]
        self.sv_value = asg[0]['value']
        self.sv_fn, self.gv_fn = sv, gv

    # ---- helper: evaluate a 32-bit version expression against the word it was sampled from
    def sampled_from(self, p, ver_value):
        """(word symbol, load event) the version expression is the low-32-bit cast of, or None"""
        if not isinstance(ver_value, tuple):
            return None
        ws = word_symbols(p)
        ss = symbols(ver_value) & ws
        if len(ss) != 1:
            return None
        w = next(iter(ss))
        prod = None
        for e in p.events:
            if e['kind'] == 'atomic' and (e.get('result') == w or e.get('observed') == w):
                prod = e
        return w, prod

    def envs(self, p, syms, extra_vals=()):
        ws = word_symbols(p)
        conds = [(c, o) for c, o, _ in p.conds if symbols(c) & ws]
        rel = set(syms)
        changed = True
        while changed:
            changed = False
            for c, _ in conds:
                sc = symbols(c) & ws
                if sc & rel and not sc <= rel:
                    rel |= sc
                    changed = True
        conds = [(c, o) for c, o in conds if symbols(c) & rel]
        toks = self.ev.tokens_for([c for c, _ in conds] + list(extra_vals), extra=[('sym', 'this->' + self.vf['OptGuard'], False)])
        return feasible_envs(self.ev, sorted(rel), conds, toks)

    def sample_check(self, rule, fn, p, ver_value, rg):
        loc = '%s:%s' % (fn['file'], p.ret_line or fn['line'])
        key = '%s version %s' % (short(fn['name']), show(ver_value))
        sf = self.sampled_from(p, ver_value)
        if sf is None or sf[1] is None:
            self.sink.bad(rule, key, loc, 'the version handed out is not derived from a single atomic read of the lock word')
            return False
        w, prod = sf
        if self.lock_obj_kind(prod['obj'], fn) != 'LOCK':
            self.sink.bad(rule, key, loc, 'version sampled from %s, not from the lock word' % show(prod['obj']))
            return False
        n, bad, und_any = 0, None, False
        for env, und in self.envs(p, [w], [ver_value]):
            n += 1
            word = env[w]
            v = self.ev.ev(ver_value, env)
            if und:
                und_any = True
            if word.x != 0:
                bad = 'version sampled while X is set (word %r)' % word
            elif not isinstance(v, W) or v.rest != word.rest or v.x != 0 or v.six != 0 or v.s != (0, 0):
                bad = 'value %s is not the version field of the sampled word (%r -> %r)' % (show(ver_value), word, v)
        if n == 0:
            self.sink.unsup(rule, key, loc, 'no feasible state')
            return False
        if bad and und_any:
            self.sink.unsup(rule, key, loc, bad)
        elif bad:
            self.sink.bad(rule, key, loc, bad)
        else:
            self.sink.ok(rule, key, loc_of(prod), 'version = low 32 bits of the word read at %s; path condition => X clear on all %d cells' % (prod['line'], n))
        # the reads that follow use this version as their starting point: the read that sampled it must synchronise with the
        # release that published it (acquire on the read, or an acquire fence after it)
        o = prod['orders'][1] if (prod['op'] == 'cas' and not prod.get('success') and len(prod['orders']) > 1) else prod['orders'][0]
        good = has_acquire(o) or any(x['kind'] == 'fence' and has_acquire(x['order']) for x in p.events[prod['seq'] + 1:])
        self.sink.emit('C03.ORDER', 'ok' if good else 'violated', '%s version sampled by %s order=%s' % (short(fn['name']), prod['op'], o), loc_of(prod),
                       'acquire: what the holder of this version reads next is ordered after the exclusive section that published it' if good else
                       'the version a guard carries is sampled with a %s read and no acquire fence follows: reads validated against it are not ordered after the '
                       'exclusive section that published it (an inconsistent snapshot can be validated)' % o)
        return not bad

    def verify_check(self, fn, paths):
        g = self.guard_of_record(fn['record'])
        vf = self.vf[g]
        entry = S('this->' + vf, 32)
        name = short(fn['name'])
        for p in paths:
            loc = '%s:%s' % (fn['file'], p.ret_line)
            if g == 'CompositeGuard':
                hl = self.truth(S('this->' + self.own_field[g], 8), p)
                if hl is None:
                    hl = self.truth(S('this->' + self.own_field[g]), p)
                if hl is True:
                    good = is_const(p.ret) and p.ret[1] == 1 and not [e for e in p.events if e['kind'] == 'atomic']
                    self.sink.emit('C13.VERIFY', 'ok' if good else 'violated', '%s with a shared grant returns true' % name, loc,
                                   'returns %s' % show(p.ret))
                    continue
            final = p.store.get(('field', S('this'), vf))
            r = p.ret
            shape = isinstance(r, tuple) and r[0] == 'op' and r[1] == '==' and final is not None and \
                ((r[2] == final and r[3] == entry) or (r[3] == final and r[2] == entry))
            rule = 'C03.VERIFY'
            if not shape:
                self.sink.bad(rule, '%s result' % name, loc,
                              'result %s is not (refreshed version == version at entry); refreshed=%s' % (show(r), show(final)))
                continue
            self.sink.ok(rule, '%s result' % name, loc, 'returns (refreshed %s == entry %s); guard keeps the refreshed version' % (vf, vf))
            self.sample_check('C03.SAMPLE', fn, p, final, None)

    def ver_refresh(self, fn, p):
        vf = self.vf['OptGuard']
        final = p.store.get(('field', S('this'), vf))
        if final is None:
            self.sink.bad('C03.TRY', '%s refreshes the guard version' % short(fn['name']), '%s:%s' % (fn['file'], p.ret_line),
                          'the guard\'s version is not updated on this path')
            return
        self.sample_check('C03.SAMPLE', fn, p, final, None)

    def try_version(self, fn, p, row, mode, rg):
        """the granting CAS is certified on a word whose version equals the guard's version"""
        vf = self.vf['OptGuard']
        tok = ('sym', 'this->' + vf, False)
        r = RowEval(self.ev, p, row)
        n, bad = 0, None
        for pre, post, env, und in r.combos():
            n += 1
            if pre.rest != tok:
                bad = 'granted from a word whose version is %s, guard version is this->%s%s' % (pre.rest, vf, ' (undecided conditions)' if und else '')
                if und:
                    bad = ('U', bad)
            elif mode == 'X':
                ov = rg['fields'].get(self.old_f)
                v = self.ev.ev(ov, env)
                if not isinstance(v, W) or v.rest != pre.rest:
                    bad = 'XGuard acquisition version %s is not the version of the certified word' % show(ov)
        key = '%s CAS from the guard version' % short(fn['name'])
        if n == 0:
            self.sink.unsup('C03.TRY', key, loc_of(row), 'no feasible state')
        elif isinstance(bad, tuple):
            self.sink.unsup('C03.TRY', key, loc_of(row), bad[1])
        elif bad:
            self.sink.bad('C03.TRY', key, loc_of(row), bad)
        else:
            self.sink.ok('C03.TRY', key, loc_of(row), 'certified word has version == this->%s on all %d cells' % (vf, n))

    def try_fail(self, fn, p):
        """an empty result only if the version really differs (and X clear when sampled)"""
        vf = self.vf['OptGuard']
        tok = ('sym', 'this->' + vf, False)
        final = p.store.get(('field', S('this'), vf))
        sf = self.sampled_from(p, final) if final is not None else None
        key = '%s empty result => version changed' % short(fn['name'])
        loc = '%s:%s' % (fn['file'], p.ret_line)
        if sf is None:
            self.sink.unsup('C03.TRY', key, loc, 'refreshed version not recognised')
            return
        w, prod = sf
        n, bad = 0, None
        for env, und in self.envs(p, [w], [final]):
            n += 1
            if env[w].rest == tok and not und:
                bad = 'empty guard returned although the sampled version equals the guard version (word %r)' % env[w]
        if n == 0:
            self.sink.unsup('C03.TRY', key, loc, 'no feasible state')
        elif bad:
            self.sink.bad('C03.TRY', key, loc, bad)
        else:
            self.sink.ok('C03.TRY', key, loc, 'on all %d cells the sampled version differs from the guard version' % n)

    # ---- C09
    def acq_version(self, fn, p, row, rg, what):
        ov = rg['fields'].get(self.old_f)
        nv = rg['fields'].get(self.new_f)
        r = RowEval(self.ev, p, row)
        n, bad = 0, None
        for pre, post, env, und in r.combos():
            n += 1
            v = self.ev.ev(ov, env)
            if not isinstance(v, W) or v.rest != pre.rest or v.rest is None:
                bad = 'acquisition version %s is not the version field of the certified word %r' % (show(ov), pre)
        key = '%s XGuard acquisition version' % short(fn['name'])
        if n and not bad:
            self.sink.ok('C09.FLOW', key, loc_of(row), '%s = version field of the word the granting write certified' % show(ov))
        elif n:
            self.sink.bad('C09.FLOW', key, loc_of(row), bad)
        else:
            self.sink.unsup('C09.FLOW', key, loc_of(row), 'no feasible state')
        # default new version = acquisition version + 1 modulo 2^32
        good = isinstance(nv, tuple) and nv[0] == 'op' and nv[1] == '+' and nv[4] == 32 and nv[2] == ov and nv[3] == C(1, 32)
        good = good or (isinstance(nv, tuple) and nv[0] == 'op' and nv[1] == '+' and nv[4] == 32 and nv[3] == ov and nv[2] == C(1, 32))
        self.sink.emit('C09.FLOW', 'ok' if good else 'violated', '%s default published version' % short(fn['name']),
                       '%s:%s' % (fn['file'], p.ret_line), 'new version = %s (must be acquisition version + 1 in 32-bit arithmetic)' % show(nv))

    def role_acquire(self, fn, mode, paths, res):
        super().role_acquire(fn, mode, paths, res)
        if mode == 'X':
            for p in paths:
                rg = self.ret_guard(p)
                rows, _ = self.rows_of(fn, p)
                if rg and rg['owning'] and len(rows) == 1:
                    self.acq_version(fn, p, rows[0], rg, 'LockX')

    def role_tryacq(self, fn, mode, paths, res):
        super().role_tryacq(fn, mode, paths, res)
        if mode == 'X':
            for p in paths:
                rg = self.ret_guard(p)
                rows, _ = self.rows_of(fn, p)
                if rg and rg['owning'] and len(rows) == 1:
                    self.acq_version(fn, p, rows[0], rg, short(fn['name']))

    def conv_version(self, fn, p, row, spec, rg):
        if spec == 'UPG':
            self.acq_version(fn, p, row, rg, 'UpgradeToX')
        else:
            self.ver_val(fn, p, row, None, '')

    def ver_val(self, fn, p, row, bind, tag):
        """the word written when an exclusive grant ends is the guard's version-to-publish"""
        tok = ('sym', 'this->' + self.new_f, False)
        r = RowEval(self.ev, p, row, bind)
        n, bad = 0, None
        for pre, post, env, und in r.combos(lambda w: w.x == 1 and w.six == 0 and w.s == (0, 0)):
            n += 1
            if not isinstance(post, W) or post.rest != tok:
                bad = 'published version is %s, not the guard\'s %s' % (post.rest if isinstance(post, W) else '?', self.new_f)
        key = '%s publishes %s%s' % (short(fn['name']), self.new_f, tag)
        if n and not bad:
            self.sink.ok('C09.VAL', key, loc_of(row), 'written word = zero-extended 32-bit %s (| SIX for the downgrade): lock-mode bits cannot be disturbed by any version value' % self.new_f)
        elif n:
            self.sink.bad('C09.VAL', key, loc_of(row), bad)
        else:
            self.sink.unsup('C09.VAL', key, loc_of(row), 'no feasible state')

    def role_release(self, fn, mode, paths, res):
        super().role_release(fn, mode, paths, res)
        if mode != 'X':
            return
        for p in paths:
            rows, _ = self.rows_of(fn, p)
            if len(rows) != 1:
                continue
            for cf, cp, ce in self.call_sites(fn['key']):
                b = {}
                for prm, a in zip(fn['params'], ce['args']):
                    b[S('p:' + prm['name'], prm['type'].get('bits') or 64)] = a
                self.ver_val(fn, p, rows[0], b, ' from %s:%s' % (short(cf['name']), ce['line']))

    def role_release_inl(self, fn, mg, paths, res):
        out = super().role_release_inl(fn, mg, paths, res)
        if mg[0] == 'X':
            for p, row in out:
                self.ver_val(fn, p, row, {}, ' (inline release)')

    def analyse(self):
        super().analyse()
        self.ver_flow()
        self.try_x_flow()

    def try_x_flow(self):
        og = self.guards['OptGuard']['name']
        fn = self.method(og, 'TryLockX')
        for p in fn.get('_feasible_paths', []):
            rg = self.ret_guard(p)
            rows, _ = self.rows_of(fn, p)
            if rg and len(rows) == 1 and rg['fields'].get(self.ptr_field['XGuard']) is not None and not (is_const(rg['fields'][self.ptr_field['XGuard']])):
                self.acq_version(fn, p, rows[0], rg, 'TryLockX')

    def ver_flow(self):
        xg = self.guards['XGuard']
        xname = xg['name']
        # types
        for f in xg['fields']:
            if f['name'] in (self.old_f, self.new_f):
                good = f['type'].get('bits') == 32 and not f['type'].get('signed')
                self.sink.emit('C09.TYPE', 'ok' if good else 'violated', 'XGuard::%s is a 32-bit unsigned member' % f['name'],
                               '%s:%s' % (xg['file'], f['line']), 'type %s' % f['type'].get('t'))
        prm = self.sv_fn['params'][0]
        good = prm['type'].get('bits') == 32 and not prm['type'].get('signed') and all(v == S('p:' + prm['name'], 32) for v in self.sv_values)
        self.sink.emit('C09.FLOW', 'ok' if good else 'violated', 'XGuard::SetVersion stores its 32-bit argument',
                       '%s:%s' % (self.sv_fn['file'], self.sv_fn['line']), 'assigns %s' % sorted({show(v) for v in self.sv_values}))
        good = self.gv_fn['ret'].get('bits') == 32
        self.sink.emit('C09.FLOW', 'ok' if good else 'violated', 'XGuard::GetVersion returns the acquisition version',
                       '%s:%s' % (self.gv_fn['file'], self.gv_fn['line']), 'returns this->%s' % self.old_f)
        # who writes the two fields
        for f in self.fns.values():
            if f.get('record') != xname:
                continue
            for p in self.paths(f)['paths']:
                for e in p.events:
                    tgt = None
                    if e['kind'] == 'init' and e.get('member') in (self.old_f, self.new_f):
                        tgt, val, line = e['member'], e['value'], e.get('line')
                    elif e['kind'] == 'assign' and e['path'][0] == 'field' and e['path'][2] in (self.old_f, self.new_f):
                        tgt, val, line = e['path'][2], e['value'], e.get('line')
                        if isinstance(e['path'][1], tuple) and e['path'][1][0] == 'addr' and e['path'][1][1][0] == 'var':
                            continue      # a local guard object of the function itself (move-and-swap): gone when the function returns
                        if e['path'][1] != S('this'):
                            import guards as G
                            gp_ = G.guard_params(f, xname)
                            if len(gp_) == 1 and len(f['params']) == 1 and \
                                    G.exchange_status(p, S('this'), S('&' + gp_[0]['name']), [x['name'] for x in xg['fields']]) == 'full':
                                continue
                            self.sink.bad('C09.FLOW', '%s writes %s of another guard' % (short(f['name']), tgt), '%s:%s' % (f['file'], line), show(e['path']))
                            continue
                    if tgt is None:
                        continue
                    key = '%s writes %s' % (short(f['name']), tgt)
                    loc = '%s:%s' % (f['file'], line)
                    if f['kind'] == 'ctor' and f.get('move_ctor') or f.get('move_assign'):
                        src = [s for s in symbols(val)]
                        good = isinstance(val, tuple) and val[0] == 's' and val[1].endswith('->' + tgt) and val[1].startswith('&')
                        self.sink.emit('C09.FLOW', 'ok' if good else 'violated', key, loc, 'move copies %s from the source (%s)' % (tgt, show(val)))
                    elif f['kind'] == 'ctor':
                        if len(f['params']) == 0:
                            good = is_const(val) and val[1] == 0
                            self.sink.emit('C09.FLOW', 'ok' if good else 'violated', key, loc, 'default value %s' % show(val))
                        else:
                            vp = [S('p:' + q['name'], 32) for q in f['params'] if q['type'].get('bits') == 32]
                            if tgt == self.old_f:
                                good = len(vp) == 1 and val == vp[0]
                            else:
                                good = len(vp) == 1 and isinstance(val, tuple) and val[0] == 'op' and val[1] == '+' and val[4] == 32 and \
                                    {val[2], val[3]} == {vp[0], C(1, 32)}
                            self.sink.emit('C09.FLOW', 'ok' if good else 'violated', key, loc, '%s <- %s' % (tgt, show(val)))
                    elif f['key'] == self.sv_fn['key'] and tgt == self.new_f:
                        self.sink.ok('C09.FLOW', key, loc, 'SetVersion')
                    else:
                        import guards as G
                        gp = G.guard_params(f, xname)
                        if len(gp) == 1 and len(f['params']) == 1 and \
                                G.exchange_status(p, S('this'), S('&' + gp[0]['name']), [x['name'] for x in xg['fields']]) == 'full':
                            self.sink.ok('C09.FLOW', key, loc, 'complete exchange with another guard (swap)')
                            continue
                        self.sink.bad('C09.FLOW', key, loc, 'unexpected writer of the guard\'s version members')
