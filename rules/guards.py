"""C07: typestate of the guard classes (G.CTOR, G.DTOR, G.ASSIGN, G.TYPE).  Factories,
conversions and who-may-call are emitted by locks.py / mcs.py while they walk those functions."""
from facts import AnalysisBroken
from pathsim import S, C, show, is_const
from witness import run_witness
from locks import short, NS, pointee

OWNING = ('SGuard', 'SIXGuard', 'XGuard', 'CompositeGuard')


def field_default(f):
    """folded default member initialiser of a record field: int or None"""
    n = f.get('init')
    if n is None:
        return None
    if n.get('k') == 'initlist':
        if not n.get('items'):
            return 0
        n = n['items'][0]
    while n.get('k') == 'cast':
        n = n['e']
    if n.get('k') == 'const':
        return int(n['v'])
    if n.get('k') == 'zeroinit':
        return 0
    return None


def check_guards(fx, eng, rep, classes, res, only=None, typestate_only=False):
    asserts = []
    for cls in classes:
        m, sink = res[cls]
        for g in OWNING:
            if g not in m.guards or (only and g not in only):
                continue
            one_guard(fx, eng, rep, m, g)
            t = m.guards[g]['name']
            tag = '%s::%s' % (cls, g)
            asserts += [(tag + ' not copy-constructible', '!std::is_copy_constructible_v<%s>' % t, ''),
                        (tag + ' not copy-assignable', '!std::is_copy_assignable_v<%s>' % t, ''),
                        (tag + ' nothrow move-constructible', 'std::is_nothrow_move_constructible_v<%s>' % t, ''),
                        (tag + ' nothrow move-assignable', 'std::is_nothrow_move_assignable_v<%s>' % t, ''),
                        (tag + ' default-constructible', 'std::is_default_constructible_v<%s>' % t, '')]
        if not only:
            t = m.rec_name
            asserts += [(cls + ' not copyable/movable', '!std::is_copy_constructible_v<{0}> && !std::is_move_constructible_v<{0}> && '
                         '!std::is_copy_assignable_v<{0}> && !std::is_move_assignable_v<{0}>'.format(t), '')]
            # release functions are private: a client cannot release without a guard
            for g, rel in m.release.items():
                fn = fx.functions.get(rel)
                if fn is None:
                    continue
                priv = fn.get('access') == 2
                rep.check(priv, 'C07.TYPE', '%s is private' % short(fn['name']), '%s:%s' % (fn['file'], fn['line']),
                          'access=private', 'release function is accessible to clients (access=%s): a grant could be released without its guard' % fn.get('access'))
    if typestate_only:
        return
    incs = ['dbgroup/lock/pessimistic_lock.hpp', 'dbgroup/lock/optimistic_lock.hpp', 'dbgroup/lock/mcs_lock.hpp']
    wres = run_witness(fx.flags, incs, asserts, compilers=('clang++', 'g++'))
    for tag, expr, _ in asserts:
        rep.check(wres[tag], 'C07.TYPE', tag, 'witness TU', 'static_assert(%s) holds with clang++ and g++' % expr,
                  'static_assert(%s) fails' % expr)


def one_guard(fx, eng, rep, m, g):
    rec = m.guards[g]
    gname = rec['name']
    own = m.own_field[g]
    ptr = m.ptr_field[g]
    fields = [f['name'] for f in rec['fields']]
    sname = short(gname)
    own_bits = 8 if own != ptr else 64
    fns = [f for f in m.fns.values() if f.get('record') == gname]
    for f in fns:
        rep.saw_fn(f)
    rel_key = m.release[g]
    rel_fn = fx.functions[rel_key] if rel_key is not None else None

    # ---- special members of an owning guard are user-provided: a defaulted (member-wise) move leaves the source owning,
    # a defaulted destructor releases nothing, a defaulted / implicit copy duplicates the grant
    for mth in rec.get('methods', []):
        k = mth.get('kind')
        where = '%s:%s' % (rec['file'], mth.get('line') or rec['line'])
        if k in ('move_ctor', 'move_assign', 'dtor') and not mth.get('deleted'):
            rep.check(not mth.get('defaulted') and not mth.get('implicit'), 'C07.CTOR' if k == 'move_ctor' else 'C07.ASSIGN' if k == 'move_assign' else 'C07.DTOR',
                      '%s %s is user-provided' % (sname, k), where, 'hand-written',
                      'a defaulted %s of an owning guard: member-wise %s' % (k, 'move leaves the source owning the same grant (released twice)' if k != 'dtor' else 'destruction releases nothing'))
        if k in ('copy_ctor', 'copy_assign'):
            rep.check(bool(mth.get('deleted')), 'C07.TYPE', '%s %s is deleted' % (sname, k), where, 'deleted', 'an owning guard can be copied: the grant has two owners')
    kinds = {mth.get('kind') for mth in rec.get('methods', [])}
    for need in ('move_ctor', 'move_assign', 'dtor'):
        if need not in kinds:
            rep.violation('C07.CTOR' if need == 'move_ctor' else 'C07.ASSIGN' if need == 'move_assign' else 'C07.DTOR', '%s declares no %s' % (sname, need),
                          '%s:%s' % (rec['file'], rec['line']), 'an owning guard needs a hand-written %s' % need)

    # ---- G.CTOR: default state owns nothing
    fo = next(f for f in rec['fields'] if f['name'] == own)
    d = field_default(fo)
    rep.check(d == 0, 'C07.CTOR', '%s default member initialiser of %s' % (sname, own), '%s:%s' % (rec['file'], fo['line']),
              'default-constructed guard owns nothing (%s = 0)' % own, 'default value of the ownership field is %s' % d)
    for f in fns:
        if f['kind'] != 'ctor':
            continue
        fxs = m.ctor_effects(f['key'])
        loc = '%s:%s' % (f['file'], f['line'])
        if fxs is None:
            rep.unsupported('C07.CTOR', short(f['name']), loc, 'constructor has several paths')
            continue
        if fxs.get('effects'):
            rep.violation('C07.CTOR', '%s has side effects' % short(f['key']), loc, 'a guard constructor must not touch the lock')
        if f.get('move_ctor'):
            src = S('&' + f['params'][0]['name'])
            good = True
            why = []
            for fld in fields:
                v = fxs['fields'].get(fld)
                want = ('s', show(('field', src, fld)))
                if not (isinstance(v, tuple) and v[0] == 's' and v[1] == want[1]):
                    good = False
                    why.append('%s <- %s' % (fld, show(v)))
            nulled = [(p, v) for p, v in fxs['assigns'] if p == ('field', src, own) and is_const(v) and v[1] == 0]
            if not nulled:
                good = False
                why.append('source %s not cleared' % own)
            extra = [(p, v) for p, v in fxs['assigns'] if not (p[0] == 'field' and p[1] == src)]
            rep.check(good and not extra, 'C07.CTOR', '%s move constructor transfers ownership' % sname, loc,
                      'copies every member from the source and clears the source\'s %s' % own, '; '.join(why) or 'unexpected assignment')
        elif len(f['params']) == 0:
            v = fxs['fields'].get(own)
            rep.check(is_const(v) and v[1] == 0, 'C07.CTOR', '%s default constructor' % sname, loc, 'owns nothing', '%s = %s' % (own, show(v)))
        else:
            v = fxs['fields'].get(own)
            pv = fxs['fields'].get(ptr)
            ptr_param = [q for q in fxs['params'] if q[1].startswith('p:')]
            lockp = [S('p:' + q['name']) for q in f['params'] if q.get('isptr') and pointee(q['type']['ct']) == m.rec_name]
            ok_ptr = bool(lockp) and pv == lockp[0]
            if own == ptr:
                rep.check(ok_ptr, 'C07.CTOR', '%s(%s) owns its argument' % (sname, ', '.join(q['type']['t'] for q in f['params'])), loc,
                          '%s <- first lock-pointer parameter' % own, '%s <- %s' % (own, show(v)))
            else:
                # CompositeGuard: the flag decides; the version-carrying constructor must leave it false
                isconst = is_const(v)
                rep.check(ok_ptr and isconst, 'C07.CTOR', '%s(%s) ownership flag constant' % (sname, ', '.join(q['type']['t'] for q in f['params'])), loc,
                          '%s <- %s' % (own, show(v)), '%s <- %s, %s <- %s' % (own, show(v), ptr, show(pv)))

    # ---- G.DTOR / G.ASSIGN
    ownv = S('this->' + own, own_bits) if own != ptr else S('this->' + own)
    for f in fns:
        if f['kind'] == 'dtor':
            body(fx, rep, m, g, f, 'C07.DTOR', ownv, rel_key, rel_fn, assign=False)
        elif f.get('move_assign'):
            body(fx, rep, m, g, f, 'C07.ASSIGN', ownv, rel_key, rel_fn, assign=True)
        elif f['kind'] == 'method' and not f.get('const') and not f.get('copy_assign') and not m.eng.private_helper(f):
            # (a private helper - `ReleaseIfOwned()` shared by the destructor and the move assignment - is followed inside its callers)
            other_member(fx, rep, m, g, f, ownv, rel_key)
    swap_functions(fx, rep, m, g)


def exchange_status(p, a, b, fields):
    """what a path did to two guard objects (a, b = their addresses): 'none' (no member of either changed), 'full' (every member
    of a holds b's entry value and vice versa: a swap), else 'partial'"""
    changed = same = swapped = 0
    for fld in fields:
        ea, eb = S(show(('field', a, fld))), S(show(('field', b, fld)))
        fa = p.store.get(('field', a, fld), ea)
        fb = p.store.get(('field', b, fld), eb)
        def eq(x, y):
            return x == y or (isinstance(x, tuple) and isinstance(y, tuple) and x[:2] == y[:2] and x[0] == 's')
        if eq(fa, ea) and eq(fb, eb):
            same += 1
        elif eq(fa, eb) and eq(fb, ea):
            swapped += 1
        else:
            changed += 1
    if not changed and not swapped:
        return 'none'
    if not changed and not same:
        return 'full'
    return 'partial'


def guard_params(f, gname):
    return [q for q in f['params'] if q.get('isref') and q['type'].get('ct', '').replace('const ', '').strip() == gname]


def swap_functions(fx, rep, m, g):
    """a function that exchanges two guards (a member swap(other), a hidden-friend / free swap(a, b)) exchanges every member:
    an exchange that leaves one member behind separates the ownership flag / the version to publish from the lock it belongs to"""
    rec = m.guards[g]
    gname = rec['name']
    fields = [x['name'] for x in rec['fields']]
    sname = short(gname)
    for f in fx.functions.values():
        if not f.get('blocks') or f.get('record') == gname:
            continue
        gp = guard_params(f, gname)
        if len(gp) != 2 or len(f['params']) != 2:
            continue
        a, b = S('&' + gp[0]['name']), S('&' + gp[1]['name'])
        for p in m.eng.paths(f)['paths']:
            st = exchange_status(p, a, b, fields)
            if st == 'none':
                continue
            rep.check(st == 'full', 'C07.MEMBER', '%s exchanges two %s objects completely' % (short(f['name']), sname), '%s:%s' % (f['file'], p.ret_line or f['line']),
                      'every member swapped', 'some members of the two guards are exchanged and others are not (%s): the ownership and the data that goes with it end up in different guards'
                      % ', '.join('%s: %s / %s' % (fld, show(p.store.get(('field', a, fld))), show(p.store.get(('field', b, fld)))) for fld in fields))


def other_member(fx, rep, m, g, f, ownv, rel_key):
    """C07.MEMBER: any further member function of an owning guard (an early `Unlock()`, a `TryUpgrade...`, a `reset()` added
    next to the conversions) keeps the books of the grant: on every path the grant owned at entry is still owned (member
    untouched, nothing released), or released once and the guard left empty, or handed to a returned owning guard and the
    guard left empty."""
    own, ptr = m.own_field[g], m.ptr_field[g]
    sname = short(f['name'])
    guard_recs = {r['name'] for r in m.guards.values()}
    gp = guard_params(f, m.guards[g]['name'])
    fields = [x['name'] for x in m.guards[g]['fields']]
    for p in m.paths(f)['paths']:
        if p.end == 'throw':
            continue
        loc = '%s:%s' % (f['file'], p.ret_line or f['line'])
        rels = [e for e in p.events if e['kind'] == 'call' and rel_key is not None and e.get('callee') == rel_key]
        if len(gp) == 1 and len(f['params']) == 1 and not rels:
            st = exchange_status(p, S('this'), S('&' + gp[0]['name']), fields)
            if st == 'full':
                rep.ok('C07.MEMBER', '%s exchanges the two guards completely' % sname, loc, 'every member swapped')
                continue
            if st == 'partial':
                rep.violation('C07.MEMBER', '%s exchanges the two guards completely' % sname, loc,
                              'some members are exchanged with the other guard and others are not: the ownership and the data that goes with it end up in different guards')
                continue
        final = p.store.get(('field', S('this'), own), ownv)
        unchanged = final in (ownv, S('this->' + own))
        if not rels and unchanged:
            continue
        t = m.truth(ownv, p)
        if t is None:
            t = m.truth(S('this->' + own), p)
        empty = is_const(final) and final[1] == 0
        what = '%s keeps the books of the grant (owned, or released once and empty, or handed over and empty)' % sname
        if t is None:
            rep.violation('C07.MEMBER', what, loc, 'the function releases / gives up the grant on a path that does not test whether the guard owns one')
            continue
        if not t:
            rep.check(not rels, 'C07.MEMBER', what, loc, 'empty guard: nothing released', 'release called although the guard owns nothing')
            continue
        r = p.ret
        handed = isinstance(r, tuple) and r and r[0] == 'obj' and r[1] in guard_recs and len(r[3]) >= 1 and \
            m.truth(r[3][0], p) is not False and r[3][0] in (S('this->' + ptr), ('s', 'this->' + ptr, 64))
        if len(rels) == 1 and empty and rels[0].get('objptr') == S('this->' + ptr):
            rep.ok('C07.MEMBER', what, loc, 'released once, guard left empty')
        elif not rels and empty and handed:
            rep.ok('C07.MEMBER', what, loc, 'grant handed to the returned guard')
        elif not rels and empty:
            rep.violation('C07.MEMBER', what, loc, 'the guard is emptied on a path that neither releases the grant nor hands it to a returned guard: the grant is never released')
        elif rels and not empty:
            rep.violation('C07.MEMBER', what, loc, '%d release(s) but the guard still owns afterwards (%s = %s): the destructor releases the same grant again' % (len(rels), own, show(final)))
        else:
            rep.violation('C07.MEMBER', what, loc, '%d release(s), %s = %s afterwards' % (len(rels), own, show(final)))


def body(fx, rep, m, g, f, rule, ownv, rel_key, rel_fn, assign):
    rec = m.guards[g]
    own, ptr = m.own_field[g], m.ptr_field[g]
    sname = short(f['name'])
    fields = [x['name'] for x in rec['fields']]
    res = m.paths(f)
    rep.analysed['paths'] += len(res['paths'])
    seen = {True: 0, False: 0}
    for p in res['paths']:
        loc = '%s:%s' % (f['file'], p.ret_line or f['line'])
        t = m.truth(ownv, p)
        if t is None:
            t = m.truth(S('this->' + own), p)
        if t is None:
            rep.violation(rule, '%s path without ownership test' % sname, loc,
                          'a path through the function does not test the ownership field (%s)' % own)
            continue
        seen[t] += 1
        if rel_key is None:
            # the release write is in this function itself: a write to the word of the guard's lock (entry value of the pointer)
            rel_calls = [e for e in p.events if e['kind'] == 'atomic' and e['op'] != 'load' and m.lock_obj_kind(e['obj'], f) == 'LOCK']
            for e in rel_calls:
                e.setdefault('objptr', S('this->' + ptr))
                e.setdefault('args', [])
            other_calls = [e for e in p.events if (e['kind'] == 'call' and e.get('record') == m.rec_name) or
                           (e['kind'] == 'atomic' and e['op'] != 'load' and e not in rel_calls)]
        else:
            rel_calls = [e for e in p.events if e['kind'] == 'call' and e.get('callee') == rel_key]
            other_calls = [e for e in p.events if (e['kind'] == 'call' and e.get('record') == m.rec_name and e.get('callee') != rel_key) or
                           (e['kind'] == 'atomic' and e['op'] != 'load')]
        if other_calls:
            e = other_calls[0]
            rep.violation(rule, '%s touches the lock besides the release' % sname, '%s:%s' % (f['file'], e.get('line')),
                          'call/atomic %s' % (e.get('name') or e.get('op')))
        if t:
            good = len(rel_calls) == 1
            why = 'found %d release calls on the owning path' % len(rel_calls)
            if good:
                e = rel_calls[0]
                recv = e.get('objptr')
                if recv != S('this->' + ptr):
                    good, why = False, 'release called on %s, not on the guard\'s lock' % show(recv)
                # arguments: every parameter of the release function is a member of this guard (entry value)
                for a in e['args']:
                    base = a
                    while isinstance(base, tuple) and base and base[0] in ('ext', 'lv', 'deref', 'addr'):
                        base = base[1]
                    if not (isinstance(base, tuple) and base[0] == 's' and base[1].lstrip('*&').startswith('this->')):
                        good, why = False, 'release argument %s is not a member of the guard at entry' % show(a)
                # (the order of the release and of the member updates is free - move-and-swap releases last, std::exchange empties
                # first: receiver and arguments of the release are compared with the members' entry values above)
            rep.check(good, rule, '%s owning path releases exactly once' % sname, loc,
                      'one %s on this->%s' % ('call to ' + short(rel_fn['name']) if rel_fn else 'release write', ptr), why)
        else:
            rep.check(not rel_calls, rule, '%s non-owning path releases nothing' % sname, loc, 'no release call', '%d release call(s) on the empty path' % len(rel_calls))
        if assign:
            src = S('&' + f['params'][0]['name'])
            good, why = True, []
            for fld in fields:
                v = p.store.get(('field', S('this'), fld))
                want = show(('field', src, fld))
                if not (isinstance(v, tuple) and v[0] == 's' and v[1] == want):
                    good = False
                    why.append('%s = %s' % (fld, show(v)))
            sv = p.store.get(('field', src, own))
            if not (is_const(sv) and sv[1] == 0):
                good = False
                why.append('source %s not cleared (%s)' % (own, show(sv)))
            rep.check(good, rule, '%s takes over every member and clears the source' % sname, loc, '', '; '.join(why))
    if not seen[True] or not seen[False]:
        rep.unsupported(rule, sname, '%s:%s' % (f['file'], f['line']), 'expected an owning and a non-owning path (found %s)' % seen)
    if assign and f['params'] and f['params'][0].get('isref'):
        # self-move-assignment (g = std::move(g), or two names for one guard in a container shuffle): the parameter aliases
        # *this.  Whatever the function does then, the guard must end up either still owning its grant (nothing released) or
        # empty (the grant released): owning without a grant would release a second time later
        prm = f['params'][0]
        alias = m.eng.paths(f, init_store={('var', prm['did'], prm['name']): S('this')})
        for p in alias['paths']:
            loc = '%s:%s' % (f['file'], p.ret_line or f['line'])
            t = m.truth(ownv, p)
            if t is None:
                t = m.truth(S('this->' + own), p)
            if t is not True:
                continue
            if rel_key is None:
                rels = [e for e in p.events if e['kind'] == 'atomic' and e['op'] != 'load' and m.lock_obj_kind(e['obj'], f) == 'LOCK']
            else:
                rels = [e for e in p.events if e['kind'] == 'call' and e.get('callee') == rel_key]
            final = p.store.get(('field', S('this'), own), ownv)
            empty = is_const(final) and final[1] == 0
            keeps = final in (ownv, S('this->' + own))
            good = (len(rels) == 0 and keeps) or (len(rels) == 1 and empty)
            rep.check(good, rule, '%s self-move-assignment leaves the guard owning its grant or empty' % sname, loc,
                      'no release and ownership kept' if not rels else 'released once and left empty',
                      '%d release(s) but %s = %s afterwards: the guard claims a grant it no longer holds (released again on destruction)' % (len(rels), own, show(final)))
