"""debug helper: print the paths of a function"""
import sys
sys.path.insert(0, __import__('os').path.dirname(__file__))
import facts as F
from pathsim import Engine, show

def dump(fx, eng, name):
    for fn in fx.fn_by_name.get(name, []):
        res = eng.paths(fn)
        print('=====', fn['key'], 'paths', len(res['paths']), 'cuts', res['cuts'], 'explored', res['explored'], 'spinfail', len(res['spin_fail']))
        for p in res['paths']:
            print('  -- path', p.end, 'ret', show(p.ret), 'blocks', p.blocks)
            for c in p.conds:
                print('       cond', show(c[0]), '=>', c[1], '@', c[2])
            for e in p.events:
                k = e['kind']
                if k == 'atomic':
                    print('       ', e['line'], e['op'], show(e['obj']), e['orders'],
                          'val=' + show(e.get('value')) if 'value' in e else '',
                          ('exp=%s des=%s ok=%s' % (show(e['expected']), show(e['desired']), e['success'])) if e['op'] == 'cas' else '',
                          '->' + show(e.get('result')) if e.get('result') else '', 'spin' if e['in_spin'] else '')
                elif k in ('call',):
                    print('       ', e['line'], 'call', e['name'], 'obj=' + show(e.get('obj')) if e.get('obj') else '', [show(a) for a in e['args']])
                elif k == 'construct':
                    print('       ', e['line'], 'construct', e['ctor'], [show(a) for a in e['args']])
                elif k in ('assign',):
                    print('       ', e['line'], 'assign', show(e['path']), '=', show(e['value']))
                elif k in ('assign_local', 'decl'):
                    pass
                else:
                    print('       ', e.get('line'), k, {x: (show(y) if isinstance(y, tuple) else y) for x, y in e.items() if x not in ('kind', 'line', 'fn', 'seq', 'depth', 'init_node')})

if __name__ == '__main__':
    fx = F.extract()
    eng = Engine(fx)
    for n in sys.argv[1:]:
        dump(fx, eng, n)
