"""Lock rules for the two word-based locks (PessimisticLock, OptimisticLock) and the shared
model discovery used by the MCS rules (mcs.py).   DESIGN.md section 3.

Everything is derived from the facts of the current tree:
  lock word      = the single std::atomic<uint64_t> data member of the lock class
  guard classes  = nested records SGuard / SIXGuard / XGuard / CompositeGuard / OptGuard (public API)
  ownership field= the member `operator bool` of the guard returns
  release fns    = the lock-class methods the guard destructors call on that member
  layout         = the bit LockX sets, the bit LockSIX sets, the unit LockS adds
and every atomic write to a lock word is evaluated over the field abstraction (absword.py).
"""
import os
from facts import AnalysisBroken
from pathsim import Engine, S, C, show, symbols, is_const, is_atomic_record, cond_truth
from absword import Layout, Eval, W, INF, feasible_envs

NS = 'dbgroup::lock::'
ORDER_RANK = {'relaxed': 0, 'consume': 1, 'acquire': 2, 'release': 2, 'acq_rel': 3, 'seq_cst': 4}


def has_acquire(o):
    return o in ('acquire', 'acq_rel', 'seq_cst')


def has_release(o):
    return o in ('release', 'acq_rel', 'seq_cst')


def loc_of(e):
    return '%s:%s' % (e.get('file') or '', e.get('line'))


class Sink:
    def __init__(self):
        self.items = []
        self._seen = set()

    def emit(self, rule, status, key, loc='', detail='', data=None):
        sig = (rule, status, key, loc)
        if sig in self._seen:
            return
        self._seen.add(sig)
        self.items.append({'rule': rule, 'status': status, 'key': key, 'loc': loc, 'detail': detail, 'data': data})

    def ok(self, rule, key, loc='', detail=''):
        self.emit(rule, 'ok', key, loc, detail)

    def bad(self, rule, key, loc='', detail='', data=None):
        self.emit(rule, 'violated', key, loc, detail, data)

    def unsup(self, rule, key, loc='', detail=''):
        self.emit(rule, 'unsupported', key, loc, detail)

    def into(self, report, prefixes):
        n = 0
        for it in self.items:
            if any(it['rule'].startswith(p) for p in prefixes):
                n += 1
                if it['status'] == 'ok':
                    report.ok(it['rule'], it['key'], it['loc'], it['detail'])
                elif it['status'] == 'violated':
                    report.violation(it['rule'], it['key'], it['loc'], it['detail'], it.get('data'))
                else:
                    report.unsupported(it['rule'], it['key'], it['loc'], it['detail'])
        return n


def short(fnname):
    return fnname.replace(NS, '')


class LockModel:
    """discovery shared by all lock classes"""
    GUARD_MODES = {'SGuard': 'S', 'SIXGuard': 'SIX', 'XGuard': 'X'}

    def __init__(self, facts, eng, cls):
        self.facts, self.eng, self.cls = facts, eng, cls
        self.rec_name = NS + cls
        self.rec = facts.record(self.rec_name)
        atom = [f for f in self.rec['fields'] if is_atomic_record(f['type'].get('ct', '')) and not f['pointer']]
        if not atom:
            raise AnalysisBroken('%s: no atomic data member (the lock word) found' % cls)
        self.word = atom[0]['name']
        self._atom_candidates = [f['name'] for f in atom]
        self.guards = {}
        for g in ('SGuard', 'SIXGuard', 'XGuard', 'CompositeGuard', 'OptGuard'):
            if self.rec_name + '::' + g in facts.records:
                self.guards[g] = facts.records[self.rec_name + '::' + g]
        for g in ('SGuard', 'SIXGuard', 'XGuard'):
            if g not in self.guards:
                raise AnalysisBroken('%s: guard class %s not found' % (cls, g))
        self.tu = None
        self.fns = {}
        for f in facts.functions.values():
            r = f.get('record') or ''
            if r == self.rec_name or r.startswith(self.rec_name + '::'):
                self.fns[f['key']] = f
        acq = self.method(self.rec_name, 'LockX')
        self.tu = acq['tu']
        if len(self._atom_candidates) > 1:
            # several atomic members (say, a statistics counter next to the lock word): the lock word is the one the
            # exclusive acquire writes with a CAS / exchange
            hits = {}
            for p in self.paths(acq)['paths']:
                for e in p.events:
                    if e['kind'] == 'atomic' and e['op'] in ('cas', 'exchange') and e['obj'][0] == 'field' and e['obj'][2] in self._atom_candidates:
                        hits[e['obj'][2]] = hits.get(e['obj'][2], 0) + 1
            if len(hits) != 1:
                raise AnalysisBroken('%s: cannot tell the lock word among the atomic members %s' % (cls, self._atom_candidates))
            self.word = next(iter(hits))
        self.own_field, self.ptr_field = {}, {}
        for g, rec in self.guards.items():
            self._guard_fields(g, rec)
        self.ctor_fx = {}
        self.release = {}
        self.roles = {}

    def method(self, rec, name, required=True):
        c = [f for f in self.fns.values() if f.get('record') == rec and f['short'] == name]
        if len(c) > 1:
            # overloads of an API function (a const-qualified twin, a variant with a defaulted extra parameter): the original
            # signature is the anchor, the others get the same role (assign_roles) and are judged by the same rules
            nc = [f for f in c if not f.get('const')] or c
            nc.sort(key=lambda f: (len(f['params']), f['key']))
            self.__dict__.setdefault('overloads', {})[nc[0]['key']] = [f for f in c if f is not nc[0]]
            return nc[0]
        if len(c) != 1:
            if required:
                raise AnalysisBroken('anchor %s::%s: %d definitions' % (rec, name, len(c)))
            return None
        return c[0]

    def paths(self, fn):
        return self.eng.paths(fn)

    def _guard_fields(self, g, rec):
        gname = rec['name']
        ptr = [f for f in rec['fields'] if f['pointer'] and pointee(f['type']['ct']) == self.rec_name]
        conv = [f for f in self.fns.values() if f.get('record') == gname and f['kind'] == 'conversion']
        if len(conv) != 1:
            raise AnalysisBroken('%s: operator bool not found' % gname)
        ps = self.paths(conv[0])['paths']
        own = None
        if len(ps) == 1:
            r = ps[0].ret
            if isinstance(r, tuple) and r[0] == 'ne0':
                r = r[1]
            if isinstance(r, tuple) and r[0] == 'op' and r[1] == '!=' and is_const(r[3]) and r[3][1] == 0:
                r = r[2]      # member != nullptr
            elif isinstance(r, tuple) and r[0] == 'op' and r[1] == '!=' and is_const(r[2]) and r[2][1] == 0:
                r = r[3]
            if isinstance(r, tuple) and r[0] == 's' and r[1].startswith('this->'):
                own = r[1][len('this->'):]
            elif is_const(r):
                own = ('const', r[1])
        if own is None:
            raise AnalysisBroken('%s::operator bool: ownership field not recognised' % gname)
        self.own_field[g] = own
        if g != 'OptGuard':
            if not isinstance(own, str):
                raise AnalysisBroken('%s::operator bool returns a constant' % gname)
        # the lock-pointer field: the pointer-to-lock member used as receiver of releases
        cand = [f['name'] for f in ptr]
        self.ptr_field[g] = None
        for f in rec['fields']:
            if f['pointer'] and pointee(f['type']['ct']) == self.rec_name:
                if self.ptr_field[g] is None or f['name'] == own:
                    self.ptr_field[g] = f['name']
        if isinstance(own, str) and own in cand:
            self.ptr_field[g] = own

    # ---- constructors: field <- expression over parameters
    def ctor_effects(self, ctor_key):
        if ctor_key in self.ctor_fx:
            return self.ctor_fx[ctor_key]
        fn = self.facts.functions.get(ctor_key)
        fx = None
        if fn is not None:
            ps = self.paths(fn)['paths']
            if len(ps) == 1:
                fx = {'fields': {}, 'params': [S('p:' + p['name'], p['type'].get('bits') or 64) if not p.get('isref')
                                               else S('&' + p['name']) for p in fn['params']], 'assigns': []}
                for e in ps[0].events:
                    if e['kind'] == 'init' and e.get('member'):
                        fx['fields'][e['member']] = e['value']
                    elif e['kind'] == 'assign':
                        fx['assigns'].append((e['path'], e['value']))
                    elif e['kind'] in ('atomic', 'call'):
                        fx['effects'] = True
        self.ctor_fx[ctor_key] = fx
        return fx

    def guard_of_record(self, recname):
        for g, r in self.guards.items():
            if r['name'] == recname:
                return g
        return None

    def ret_guard(self, path):
        """classify a returned guard object: (guard, owning(True/False/None), field values)"""
        r = path.ret
        if not (isinstance(r, tuple) and r and r[0] == 'obj'):
            return None
        g = self.guard_of_record(r[1])
        if g is None:
            return None
        fx = self.ctor_effects(r[2])
        if fx is None:
            # defaulted default constructor: default member initialisers
            rec = self.guards[g]
            vals = {}
            for f in rec['fields']:
                vals[f['name']] = C(0)
            return {'guard': g, 'fields': vals, 'owning': False, 'ctor': r[2], 'args': r[3]}
        sub = dict(zip(fx['params'], r[3]))
        vals = {k: subst(v, sub) for k, v in fx['fields'].items()}
        own = self.own_field[g]
        owning = None
        if isinstance(own, str):
            v = vals.get(own)
            owning = self.truth(v, path)
        else:
            owning = False
        return {'guard': g, 'fields': vals, 'owning': owning, 'ctor': r[2], 'args': r[3]}

    def lock_type_rule(self):
        """C01.TYPE: a lock object is never copied or moved.  Its word names the grants (and, for the queue lock, the queue
        nodes) of one object: a copy made while the source is held or queued on carries grants nobody will release and node
        addresses that will be freed; an assignment overwrites the grants of the target."""
        rec = self.facts.records.get(self.rec_name)
        if rec is None:
            return
        bad = [m for m in rec.get('methods', []) if m.get('kind') in ('copy_ctor', 'move_ctor', 'copy_assign', 'move_assign') and not m.get('deleted')]
        # the shared holders are counted in a bit field of the word; the library is designed for that many simultaneous holders
        # (the widths below are the ones of the analysed revision, frozen by hand): a narrower field wraps into the flag bits - or to
        # an all-clear state - with fewer holders than the documented limit, and the word then admits an exclusive request
        lay = getattr(self, 'layout', None)
        if lay is not None and getattr(lay, 'ok', True):
            want_w = {'PessimisticLock': 62, 'OptimisticLock': 30, 'MCSLock': 15}.get(self.cls)
            width = lay.sixbit - lay.ubit
            if want_w is not None:
                self.sink.emit('C01.TYPE', 'ok' if width >= want_w else 'violated', '%s counts at least 2^%d - 1 simultaneous shared holders' % (self.cls, want_w),
                               '%s:%s' % (rec['file'], rec['line']),
                               'counter field [bit %d, bit %d)' % (lay.ubit, lay.sixbit) if width >= want_w else
                               'the shared-holder counter is the field [bit %d, bit %d): %d bits instead of %d - %d simultaneous holders wrap it into the SIX / X flags and '
                               'then to "no holders", and an exclusive request is admitted beside them' % (lay.ubit, lay.sixbit, width, want_w, 1 << width))
        cd = rec.get('constexpr_default_ctor')
        if cd is not None:
            # a lock with static storage duration is usable from other objects' static initialisers: it exists, free, before any code
            # runs only if its default constructor is constexpr (constant initialisation); a constructor that runs during dynamic
            # initialisation re-zeroes a word that may already carry grants and a version
            self.sink.emit('C01.TYPE', 'ok' if cd else 'violated', '%s is constant-initialised by its default constructor' % self.cls, '%s:%s' % (rec['file'], rec['line']),
                           'constexpr default constructor' if cd else
                           'the default constructor is not constexpr: a static lock is initialised at some point during program start-up, wiping grants taken (and the version published) before that point')
        self.sink.emit('C01.TYPE', 'ok' if not bad else 'violated', '%s is neither copyable nor movable' % self.cls, '%s:%s' % (rec['file'], (bad[0].get('line') if bad else rec['line'])),
                       'copy / move operations deleted' if not bad else
                       '%s is available: a copy of a held (or queued-on) lock carries its grants and node addresses; an assignment wipes the target\'s' % ', '.join(m['kind'] for m in bad))


    def truth(self, v, path):
        """is value v (pointer / bool) definitely non-null on this path? True/False/None"""
        if v is None:
            return None
        if is_const(v):
            return bool(v[1])
        if v == S('this'):
            return True
        return cond_truth(path.conds, v)

    # ---- lock-word objects
    def lock_obj_kind(self, obj, fn):
        """'LOCK' if obj is the lock word of the lock object the function works on, 'NODE' for
        the word of another object of the lock class, None otherwise"""
        if not (isinstance(obj, tuple) and obj[0] == 'field' and obj[2] == self.word):
            return None
        base = obj[1]
        rec = fn.get('record') or ''
        if rec == self.rec_name:
            return 'LOCK' if base == S('this') else 'NODE'
        g = self.guard_of_record(rec)
        if g and self.ptr_field.get(g):
            if base == S('this->' + self.ptr_field[g]):
                return 'LOCK'
            return 'NODE'
        return 'NODE'

    def mask_check(self, fn, paths):
        """C01.MASK: no decision is taken on a part of the shared-holder count"""
        seen = set()
        for p in paths:
            for k, expr in partial_count_masks(p, self.layout):
                if not (symbols(expr) & word_symbols(p)) or (k, fn['key']) in seen:
                    continue
                seen.add((k, fn['key']))
                self.sink.bad('C01.MASK', '%s tests the lock word with mask %#x' % (short(fn['name']), k), '%s:%s' % (fn['file'], fn['line']),
                              'the mask covers the shared-holder count %#x only partially: the decision depends on the parity / a truncated value of the count (%s)' %
                              (self.layout.SMASK, show(expr)[:80]))
        if not seen and paths:
            self.sink.ok('C01.MASK', '%s masks applied to the lock word cover the shared-holder count entirely or not at all' % short(fn['name']), fn['file'], '')

    def word_events(self, path, fn, kinds=('LOCK',)):
        out = []
        for e in path.events:
            if e['kind'] == 'atomic':
                k = self.lock_obj_kind(e['obj'], fn)
                if k in kinds:
                    out.append((k, e))
        return out


def pointee(ct):
    """record named by a pointer type spelling: 'T *', 'T *const', 'const T *' -> 'T'"""
    import re as _re
    t = _re.sub(r'\s*\*\s*(const|volatile|\s)*$', '', ct.strip())
    t = _re.sub(r'^(const|volatile)\s+', '', t)
    return t.strip()


def partial_count_masks(path, layout, extra=()):
    """constants K in `x & K` (inside the path's conditions and the given extra values) that cover the shared-holder
    count only partially: a test or an update that looks at some bits of the counter decides on its parity or on a
    truncated count.  Returns [(K, expression)]."""
    out = []

    def walk(v):
        if not isinstance(v, tuple) or not v:
            return
        if v[0] == 'op' and len(v) == 5 and v[1] == '&':
            for a, b in ((v[2], v[3]), (v[3], v[2])):
                if is_const(b) and not is_const(a):
                    k = b[1] & layout.SMASK
                    if k and k != layout.SMASK and symbols(a):
                        out.append((b[1], v))
        if v[0] == 'trunc' and len(v) >= 3 and isinstance(v[2], int):
            # a narrowing conversion of a value derived from the word: (w & M) >> k (or / 2^k) kept in `bits` bits looks at the
            # word through the mask ((2^bits - 1) << k) & M
            inner, tb = v[1], v[2]
            k = 0
            if isinstance(inner, tuple) and inner and inner[0] == 'op' and len(inner) == 5 and inner[1] in ('>>', '/') and is_const(inner[3]):
                d = inner[3][1]
                if inner[1] == '>>':
                    k, inner = d, inner[2]
                elif d and d & (d - 1) == 0:
                    k, inner = d.bit_length() - 1, inner[2]
            m = (1 << 64) - 1
            if isinstance(inner, tuple) and inner and inner[0] == 'op' and len(inner) == 5 and inner[1] == '&':
                for a, b in ((inner[2], inner[3]), (inner[3], inner[2])):
                    if is_const(b) and not is_const(a):
                        m = b[1]
            eff = (((1 << tb) - 1) << k) & m
            kk = eff & layout.SMASK
            if kk and kk != layout.SMASK and symbols(v[1]):
                out.append((eff, v))
        for x in v:
            if isinstance(x, tuple):
                walk(x)
    for c, _, _ in path.conds:
        walk(c)
    for v in extra:
        walk(v)
    return out


def subst(v, sub):
    if not isinstance(v, tuple):
        return v
    if v in sub:
        return sub[v]
    return tuple(subst(x, sub) if isinstance(x, tuple) else x for x in v)


def is_write(e):
    return e['op'] not in ('load', 'wait', 'notify_one', 'notify_all') and not (e['op'] == 'cas' and not e['success'])


def word_symbols(path):
    out = set()
    for e in path.events:
        if e['kind'] == 'atomic':
            if e.get('result') is not None:
                out.add(e['result'])
            if e.get('observed') is not None:
                out.add(e['observed'])
    out |= path.word_syms
    return out


def free_word_symbols(v, out=None):
    """64-bit symbols that occur as integer values (not as addresses under a pointer cast)"""
    if out is None:
        out = set()
    if isinstance(v, tuple) and v:
        if v[0] == 'ptrint':
            return out
        if v[0] == 's':
            if v[2] == 64:
                out.add(v)
            return out
        for x in v:
            if isinstance(x, tuple):
                free_word_symbols(x, out)
    return out


RMW_OP = {'fetch_add': '+', 'fetch_sub': '-', 'fetch_xor': '^', 'fetch_or': '|', 'fetch_and': '&'}


def order_tokens(conds, layout):
    """rest-field values at which an *order* comparison of a whole word with a constant K changes its outcome: the rest parts of
    K - 1, K and K + 1 (zero included).  `word > kSLock` and `word >= kSLock` differ exactly on the word whose count is one and
    whose rest field is 0."""
    out = []
    rm = getattr(layout, 'RMASK', 0)
    if not rm:
        return out

    def walk(v):
        if not isinstance(v, tuple) or not v:
            return
        if v[0] == 'op' and len(v) == 5 and v[1] in ('<', '<=', '>', '>='):
            for k in (v[2], v[3]):
                if is_const(k) and k[1] > rm:
                    for kk in (k[1] - 1, k[1], k[1] + 1):
                        t = ('c', kk & rm)
                        if t not in out:
                            out.append(t)
        for x in v:
            if isinstance(x, tuple):
                walk(x)
    for c in conds:
        walk(c)
    return out[:4]


class RowEval:
    """abstract evaluation of one atomic write on a lock word along one path"""

    def __init__(self, ev, path, e, bind=None):
        self.ev, self.path, self.e = ev, path, e
        self.bind = bind or {}
        op = e['op']
        self.kind = op
        self.extra_conds = []
        if op == 'cas':
            self.pre_sym = e['expected']
            self.post_expr = e['desired']
            if not (isinstance(self.pre_sym, tuple) and self.pre_sym and self.pre_sym[0] == 's'):
                # CAS from a computed expected value: the certified word equals that expression
                self.pre_sym = S('cas_expected@%s' % e['line'])
                self.extra_conds = [(('op', '==', self.pre_sym, e['expected'], 1), True)]
        elif op == 'store':
            self.pre_sym = S('pre@%s' % e['line'])
            self.post_expr = e['value']
        elif op == 'exchange':
            self.pre_sym = e['result']
            self.post_expr = e['value']
        elif op in RMW_OP:
            self.pre_sym = e['result']
            self.post_expr = ('op', RMW_OP[op], e['result'], e['value'], 64)
        else:
            raise AnalysisBroken('unknown atomic write %s' % op)
        self.supported = isinstance(self.pre_sym, tuple) and self.pre_sym[0] == 's'

    def combos(self, assume=None, extra_syms=()):
        """yield (pre, post, env, undecided) over all feasible cells"""
        ws = word_symbols(self.path)
        ws.add(self.pre_sym)
        conds = [(subst(c, self.bind), o) for c, o, _ in self.path.conds] + [(subst(c, self.bind), o) for c, o in self.extra_conds]
        post_expr = subst(self.post_expr, self.bind)
        # free 64-bit symbols in the written value are enumerated as well (they can be anything)
        for s in free_word_symbols(post_expr):
            if s not in self.bind:
                ws.add(s)
        # only symbols connected to pre_sym through conditions / the written value matter
        rel = {self.pre_sym} | (symbols(post_expr) & ws)
        changed = True
        while changed:
            changed = False
            for c, _ in conds:
                sc = symbols(c) & ws
                if sc & rel and not sc <= rel:
                    rel |= sc
                    changed = True
        rel |= set(extra_syms)
        conds = [(c, o) for c, o in conds if symbols(c) & rel]
        syms = sorted(rel)
        toks = self.ev.tokens_for([c for c, _ in conds] + [post_expr], extra=order_tokens([c for c, _ in conds], self.ev.L) if self.ev.rest_kind == 'version' else ())
        pre = {self.pre_sym: assume} if assume else None
        for env, und in feasible_envs(self.ev, syms, conds, toks, pre):
            yield env[self.pre_sym], self.ev.ev(post_expr, env), env, und


def fmt_cell(w):
    return repr(w)


class WordLockRules(LockModel):
    """PessimisticLock / OptimisticLock"""

    def __init__(self, facts, eng, cls, sink):
        super().__init__(facts, eng, cls)
        self.sink = sink
        self.optimistic = 'OptGuard' in self.guards
        self.sites = []
        self.discover_release()
        self.discover_layout()
        self.assign_roles()

    # ------------------------------------------------------------------ discovery
    def discover_release(self):
        for g in ('SGuard', 'SIXGuard', 'XGuard', 'CompositeGuard'):
            if g not in self.guards:
                continue
            d = [f for f in self.fns.values() if f.get('record') == self.guards[g]['name'] and f['kind'] == 'dtor']
            if len(d) != 1:
                raise AnalysisBroken('%s::%s: destructor not found' % (self.cls, g))
            callees = set()
            for p in self.paths(d[0])['paths']:
                for e in p.events:
                    if e['kind'] == 'call' and e.get('record') == self.rec_name:
                        callees.add(e['callee'])
            if not callees and any(self.word_events(p, d[0]) for p in self.paths(d[0])['paths']):
                # the release write is performed by the guard's destructor / move assignment themselves
                self.release[g] = None
                continue
            if len(callees) != 1:
                raise AnalysisBroken('%s::%s::~: expected exactly one release function, found %s' % (self.cls, g, sorted(callees)))
            self.release[g] = callees.pop()

    def granting_rows(self, fn):
        rows = []
        for p in self.paths(fn)['paths']:
            for k, e in self.word_events(p, fn):
                if is_write(e):
                    rows.append((p, e))
        return rows

    def discover_layout(self):
        bits = {}
        for mode, name in (('X', 'LockX'), ('SIX', 'LockSIX'), ('S', 'LockS')):
            fn = self.method(self.rec_name, name)
            ks, odd = set(), []
            for p, e in self.granting_rows(fn):
                r = RowEval(None, p, e)
                d = r.post_expr
                if isinstance(d, tuple) and d[0] == 'op' and d[1] in ('|', '+', '^') and is_const(d[3]) and d[2] == r.pre_sym:
                    ks.add(d[3][1])
                elif isinstance(d, tuple) and d[0] == 'op' and d[1] in ('|', '+', '^') and is_const(d[2]) and d[3] == r.pre_sym:
                    ks.add(d[2][1])
                elif is_const(d) and d[1] and not (d[1] & (d[1] - 1)):
                    ks.add(d[1])     # a constant written from a word certified to be zero
                else:
                    odd.append(d)    # judged by the row rules; the layout is taken from the recognised granting writes
            if odd and not ks:
                raise AnalysisBroken('%s::%s: granting write %s is not cur (|,+,^) constant' % (self.cls, name, show(odd[0])))
            if len(ks) != 1:
                raise AnalysisBroken('%s::%s: %d different granting constants' % (self.cls, name, len(ks)))
            k = ks.pop()
            if k == 0 or k & (k - 1):
                raise AnalysisBroken('%s::%s: granting constant %#x is not a single bit' % (self.cls, name, k))
            bits[mode] = k.bit_length() - 1
        self.layout = Layout(bits['X'], bits['SIX'], bits['S'])
        if not self.layout.ok:
            raise AnalysisBroken('%s: unsupported layout %s' % (self.cls, self.layout.describe()))
        self.ev = Eval(self.layout, 'version' if 'OptGuard' in self.guards else 'pointer')

    def assign_roles(self):
        R = self.roles
        for mode, name in (('S', 'LockS'), ('SIX', 'LockSIX'), ('X', 'LockX')):
            R[self.method(self.rec_name, name)['key']] = ('acquire', mode)
        for g, mode in (('SGuard', 'S'), ('SIXGuard', 'SIX'), ('XGuard', 'X'), ('CompositeGuard', 'S')):
            if g not in self.guards:
                continue
            if self.release[g] is None:
                for f in self.fns.values():
                    if f.get('record') == self.guards[g]['name'] and (f['kind'] == 'dtor' or f.get('move_assign')):
                        R[f['key']] = ('release_inl', (mode, g))
            elif g != 'CompositeGuard':
                R[self.release[g]] = ('release', mode)
        if 'CompositeGuard' in self.guards and self.release['CompositeGuard'] is not None and self.release['SGuard'] is not None \
                and self.release['CompositeGuard'] != self.release['SGuard']:
            self.sink.bad('C13.REL', '%s::CompositeGuard releases through %s, SGuard through %s'
                          % (self.cls, self.release['CompositeGuard'], self.release['SGuard']))
        R[self.method(self.guards['SIXGuard']['name'], 'UpgradeToX')['key']] = ('upgrade', 'X')
        R[self.method(self.guards['XGuard']['name'], 'DowngradeToSIX')['key']] = ('downgrade', 'SIX')
        # any further member of an owning guard that returns a guard of another mode (a DowngradeToS, an UpgradeToSIX ... added
        # next to the two conversions the library has) is a conversion between those two modes: judged by the same transition
        # rules, not rejected as an unknown writer
        gmode = {'SGuard': 'S', 'SIXGuard': 'SIX', 'XGuard': 'X'}
        for f in self.fns.values():
            gfrom = self.guard_of_record(f.get('record') or '')
            if f['key'] in R or gfrom not in gmode or f['kind'] != 'method' or f.get('const') or f.get('move_assign') or f.get('copy_assign'):
                continue
            gto = self.guard_of_record((f.get('ret') or {}).get('ct', '').replace('const ', '').strip())
            if gto in gmode and gto != gfrom:
                R[f['key']] = ('convert', (gfrom, gto))
        # a further member of the lock class that returns a guard (a non-blocking TryLockX(), a variant of LockS with an option)
        # is an acquisition of that mode: every granting write is held to the admission rules, a path without one returns an empty guard
        for f in self.fns.values():
            if f['key'] in R or f.get('record') != self.rec_name or f['kind'] != 'method' or f.get('const'):
                continue
            gto = self.guard_of_record((f.get('ret') or {}).get('ct', '').replace('const ', '').strip())
            if gto in gmode:
                R[f['key']] = ('tryacq', gmode[gto])
        if self.optimistic:
            og = self.guards['OptGuard']['name']
            for mode, name in (('S', 'TryLockS'), ('SIX', 'TryLockSIX'), ('X', 'TryLockX')):
                R[self.method(og, name)['key']] = ('try', mode)
            R[self.method(self.rec_name, 'PrepareRead')['key']] = ('prepare', 'S')
            R[self.method(self.rec_name, 'GetVersion')['key']] = ('read', None)
            R[self.method(og, 'VerifyVersion')['key']] = ('read', None)
            R[self.method(self.guards['CompositeGuard']['name'], 'VerifyVersion')['key']] = ('read', None)

        for k, others in self.__dict__.get('overloads', {}).items():
            if k in R:
                for f in others:
                    R.setdefault(f['key'], R[k])

    # ------------------------------------------------------------------ row specifications
    def spec_check(self, spec, fn, p, e, bind=None, tag=''):
        """evaluate one write row against its role specification; emits obligations"""
        L = self.layout
        if not hasattr(self, 'rows'):
            self.rows = []
        self.rows.append((spec, fn, p, e, bind))
        key = '%s %s(%s)%s' % (short(fn['name']), e['op'], self.word, tag)
        loc = loc_of(e)
        r = RowEval(self.ev, p, e, bind)
        conv = spec.split(':')[1:] if spec.startswith('CONV:') else None
        rule_adm = 'C01.CONV' if conv else \
                   {'ADM:S': 'C01.ADM', 'ADM:SIX': 'C01.ADM', 'ADM:X': 'C01.ADM', 'ADM:S:FREE': 'C13.LOCKEXIT',
                    'UPG': 'C10.UPG', 'DOWN': 'C10.DOWN', 'REL:S': 'C01.REL', 'REL:SIX': 'C01.REL', 'REL:X': 'C01.REL'}[spec]
        if not r.supported:
            self.sink.unsup(rule_adm, key, loc, 'certified value %s is not a single read result' % show(r.pre_sym))
            return
        # plain stores only where the writer excludes every other writer
        if e['op'] == 'store' and spec not in ('REL:X', 'DOWN') and not (conv and conv[0] == 'X'):
            self.sink.bad('C01.STORE', key, loc, 'plain store to the lock word in role %s: concurrent RMWs of other holders/requesters are lost' % spec)
            return
        if e['op'] == 'store':
            self.sink.ok('C01.STORE', key, loc, 'plain store only as %s (writer holds X)' % spec)
        assume = {
            'UPG': lambda w: w.six == 1 and w.x == 0,
            'DOWN': lambda w: w.x == 1 and w.six == 0 and w.s == (0, 0),
            'REL:S': lambda w: w.s[0] >= 1 and w.x == 0,
            'REL:SIX': lambda w: w.six == 1 and w.x == 0,
            'REL:X': lambda w: w.x == 1 and w.six == 0 and w.s == (0, 0),
        }.get(spec)
        holds = {'S': lambda w: w.s[0] >= 1 and w.x == 0, 'SIX': lambda w: w.six == 1 and w.x == 0, 'X': lambda w: w.x == 1 and w.six == 0 and w.s == (0, 0)}
        if conv:
            assume = holds[conv[0]]
        n = 0
        worst = None   # (severity, text, undecided)
        self.ev.partial = False
        for pre, post, env, und in r.combos(assume):
            n += 1
            problems = []
            if self.ev.partial:
                problems.append(('post?', 'only one of several outcomes of the written expression was evaluated'))
                self.ev.partial = False
            if not isinstance(post, W):
                problems.append(('post', 'written value not evaluable'))
                post = W()
            # admission predicate
            if spec == 'ADM:S':
                need = [('X', pre.x, 0)]
            elif spec == 'ADM:SIX':
                need = [('X', pre.x, 0), ('SIX', pre.six, 0)]
            elif spec in ('ADM:X', 'ADM:S:FREE'):
                need = [('X', pre.x, 0), ('SIX', pre.six, 0), ('S', pre.s, (0, 0))]
            elif spec == 'UPG':
                need = [('S', pre.s, (0, 0))]
            elif conv:
                # the other holders: the certified word without the converter's own grant; the new mode must be admissible on them
                ox = 0 if conv[0] == 'X' else pre.x
                osix = 0 if conv[0] == 'SIX' else pre.six
                os_ = (pre.s[0] - 1, pre.s[1] - 1 if pre.s[1] < INF else INF) if conv[0] == 'S' else pre.s
                need = [('X', ox, 0)]
                if conv[1] in ('SIX', 'X'):
                    need.append(('SIX', osix, 0))
                if conv[1] == 'X':
                    need.append(('S', os_, (0, 0)))
            else:
                need = []
            for nm, got, want in need:
                if got != want:
                    problems.append(('adm', 'admitted with %s=%s' % (nm, got if nm != 'S' else '%s' % (got,))))
            # effect
            def same(f, a, b):
                if a is None or b is None:
                    problems.append(('post?', '%s after the write is not determined' % f))
                elif a != b:
                    problems.append(('eff', '%s: %s -> %s' % (f, a, b)))
            def s_plus(a, k):
                return (a[0] + k, a[1] + k if a[1] < INF else INF)
            if spec in ('ADM:S', 'ADM:S:FREE'):
                same('X', pre.x, post.x); same('SIX', pre.six, post.six)
                same('S+1', s_plus(pre.s, 1), post.s); same('rest', pre.rest, post.rest)
            elif spec == 'ADM:SIX':
                same('X', pre.x, post.x); same('SIX:=1', 1, post.six); same('S', pre.s, post.s); same('rest', pre.rest, post.rest)
            elif spec == 'ADM:X':
                same('X:=1', 1, post.x); same('SIX', pre.six, post.six); same('S', pre.s, post.s); same('rest', pre.rest, post.rest)
            elif spec == 'UPG':
                same('X:=1', 1, post.x); same('SIX:=0', 0, post.six); same('S', pre.s, post.s); same('rest', pre.rest, post.rest)
            elif spec == 'DOWN':
                same('X:=0', 0, post.x); same('SIX:=1', 1, post.six); same('S:=0', (0, 0), post.s)
            elif conv:
                wx = 1 if conv[1] == 'X' else (0 if conv[0] == 'X' else pre.x)
                wsix = 1 if conv[1] == 'SIX' else (0 if conv[0] == 'SIX' else pre.six)
                ws = s_plus(pre.s, (1 if conv[1] == 'S' else 0) - (1 if conv[0] == 'S' else 0))
                same('X', wx, post.x); same('SIX', wsix, post.six); same('S', ws, post.s)
                if not (conv[0] == 'X' and getattr(self, 'optimistic', False)):
                    same('rest', pre.rest, post.rest)      # (an exclusive grant of the optimistic lock ends by publishing a version: C09.VAL)
            elif spec == 'REL:S':
                same('X', pre.x, post.x); same('SIX', pre.six, post.six)
                same('S-1', s_plus(pre.s, -1), post.s); same('rest', pre.rest, post.rest)
            elif spec == 'REL:SIX':
                same('X', pre.x, post.x); same('SIX:=0', 0, post.six); same('S', pre.s, post.s); same('rest', pre.rest, post.rest)
            elif spec == 'REL:X':
                same('X:=0', 0, post.x); same('SIX:=0', 0, post.six); same('S:=0', (0, 0), post.s)
            if problems:
                definite = [t for k, t in problems if k in ('adm', 'eff')]
                sev = 2 if (definite and not und) else 1
                txt = '%s; certified word %s, written %s' % ('; '.join(t for _, t in problems), fmt_cell(pre), fmt_cell(post))
                only_enc = all(k == 'eff' and not t.startswith('rest') for k, t in problems)
                if worst is None or sev > worst[0] or (sev == worst[0] and worst[3] and not only_enc):
                    worst = (sev, txt, und, only_enc)
        if n == 0:
            self.sink.unsup(rule_adm, key, loc, 'no feasible abstract state for this path (path condition contradictory?)')
            return
        what = {'ADM:S': 'guard => X=0; effect S+1 only', 'ADM:SIX': 'guard => X=SIX=0; effect SIX:=1 only',
                'ADM:X': 'guard => X=SIX=S=0; effect X:=1 only', 'ADM:S:FREE': 'guard => word completely free; effect S+1 only',
                'UPG': 'owner holds SIX; guard => S=0; one write X:=1,SIX:=0', 'DOWN': 'owner holds X; one write X:=0,SIX:=1,S=0',
                'REL:S': 'effect S-1 only', 'REL:SIX': 'effect SIX:=0 only', 'REL:X': 'effect X:=0 with SIX=S=0'}.get(spec) or \
            'owner holds %s; guard => %s admissible beside the other holders; one write exchanging the own %s grant for %s' % (conv[0], conv[1], conv[0], conv[1])
        if worst is None:
            self.sink.ok(rule_adm, key + ' ' + spec, loc, '%s — holds on all %d feasible cells' % (what, n))
        elif worst[0] == 2:
            self.sink.bad(rule_adm, key + ' ' + spec, loc, '%s — refuted: %s' % (what, worst[1]), {'cells': n, 'kind': 'encoding' if worst[3] else 'admission'})
        else:
            self.sink.unsup(rule_adm, key + ' ' + spec, loc, '%s — not decidable: %s (undecided conditions: %s)'
                            % (what, worst[1], '; '.join(show(c) for c in worst[2][:3])))

    # ------------------------------------------------------------------ analysis of every function
    def feasible(self, p):
        """drop paths whose condition is contradictory over the field abstraction"""
        ws = sorted(word_symbols(p))
        if not ws:
            return True
        conds = [(c, o) for c, o, _ in p.conds if symbols(c) & set(ws)]
        if not conds:
            return True
        toks = self.ev.tokens_for([c for c, _ in conds])
        maybe = False
        try:
            for env, und in feasible_envs(self.ev, ws, conds, toks, None, limit=300000):
                if not und:
                    return True
                maybe = True
        except OverflowError:
            return 'maybe'
        return 'maybe' if maybe else False

    def analyse(self):
        sink = self.sink
        for key, fn in sorted(self.fns.items()):
            role = self.roles.get(key)
            if role is None and self.eng.private_helper(fn):
                continue      # a helper: analysed in the context of its callers
            res = self.paths(fn)
            paths = []
            for p in res['paths']:
                fz = self.feasible(p)
                if fz:
                    p.maybe = (fz == 'maybe')
                    paths.append(p)
            fn['_feasible_paths'] = paths
            self.mask_check(fn, paths)
            # every atomic site, for the C08 table
            for p in paths:
                for e in p.events:
                    if e['kind'] == 'atomic':
                        self.sites.append((fn, p, e))
            if role is None:
                # who may write: no other function of the class touches a lock word
                for p in paths:
                    for e in p.events:
                        if e['kind'] == 'atomic' and is_write(e) and self.lock_obj_kind(e['obj'], fn) in ('LOCK', 'NODE'):
                            sink.bad('C01.WHO', '%s %s(%s)' % (short(fn['name']), e['op'], show(e['obj'])), loc_of(e),
                                     'atomic write to a lock word outside the acquire/release/convert functions')
                continue
            getattr(self, 'role_' + role[0])(fn, role[1], paths, res)
        self.who_may_call()
        self.check_spins()
        self.closure_check()
        self.lock_type_rule()

    # ---- closure of the extracted transition system over (abstract word, ghost grant multiset)
    def closure_check(self):
        """C01.CLOSURE: machine-checks the induction of DESIGN.md 3.0 for this class, independently of how the
        word encodes the holders.  States are pairs (lock-mode bits of the word: X bit, SIX bit, S counter 0..3;
        ghost holders: X 0/1, SIX 0/1, S 0..3).  From (all-zero word, no holders) every extracted write whose
        role is enabled by the ghost state (a release needs a holder of its mode, a conversion its source grant)
        and whose certified value can be the current word is applied with its evaluated effect.  Checked on every
        reachable state: no two conflicting grants coexist; when the last holder is gone the word is the initial
        word again (a fresh exclusive request is admitted).  Bounded at three simultaneous shared holders; the
        per-row obligations cover larger counts symbolically."""
        rows = getattr(self, 'rows', [])
        self.closure_ok = None
        if not rows:
            self.sink.unsup('C01.CLOSURE', self.cls, '', 'no transition rows extracted')
            return
        fld = next(f for f in self.rec['fields'] if f['name'] == self.word)
        init = fld.get('init') or {}
        txt = repr(init)
        zero_init = "'v': '0'" in txt or init.get('k') == 'zeroinit' or (init.get('k') == 'initlist' and not init.get('items'))
        if not zero_init:
            # no default member initialiser: the default constructor's member initialiser (constants folded)
            for f in self.fns.values():
                if f.get('record') == self.rec_name and f['kind'] == 'ctor' and not f['params']:
                    for p in self.paths(f)['paths']:
                        for e in p.events:
                            if e['kind'] == 'init' and e.get('member') == self.word:
                                v = e['value']
                                v = v[3][0] if isinstance(v, tuple) and v and v[0] == 'obj' and len(v[3]) == 1 else v
                                v = v[1][0] if isinstance(v, tuple) and v and v[0] == 'initlist' and len(v[1]) == 1 else v
                                if is_const(v) and v[1] == 0:
                                    zero_init = True
        self.sink.emit('C01.CLOSURE', 'ok' if zero_init else 'violated', '%s lock word starts as the all-zero word' % self.cls, '%s:%s' % (self.rec['file'], fld['line']), '')
        assume = {'UPG': None, 'DOWN': None, 'REL:S': None, 'REL:SIX': None, 'REL:X': None}
        trans = {}
        undecided = []
        self.ev.s_cells = ((0, 0), (1, 1), (2, 2), (3, 3), (4, 4))
        try:
            for spec, fn, p, e, bind in rows:
                r = RowEval(self.ev, p, e, bind)
                if not r.supported:
                    continue
                key = (spec.replace(':FREE', ''), short(fn['name']), e['line'])
                try:
                    for pre, post, env, und in r.combos(None):
                        if pre.s[0] > 3:
                            continue
                        prek = (pre.x, pre.six, pre.s[0])
                        if und or not isinstance(post, W) or post.x is None or post.six is None or post.s is None or post.s[0] != post.s[1]:
                            trans.setdefault(key, set()).add((prek, None))     # only a problem if this state is reached
                            continue
                        if post.s[0] > 4:
                            continue
                        trans.setdefault(key, set()).add((prek, (post.x, post.six, post.s[0])))
                except OverflowError:
                    undecided.append(key)
        finally:
            del self.ev.s_cells
        delta = {'ADM:S': (0, 0, 1), 'ADM:SIX': (0, 1, 0), 'ADM:X': (1, 0, 0), 'REL:S': (0, 0, -1), 'REL:SIX': (0, -1, 0), 'REL:X': (-1, 0, 0),
                 'UPG': (1, -1, 0), 'DOWN': (-1, 1, 0)}
        seen, todo, bad = set(), [((0, 0, 0), (0, 0, 0))], []
        steps = 0
        MAXS = 3
        while todo:
            st = todo.pop()
            if st in seen:
                continue
            seen.add(st)
            word, g = st
            for key, pairs in trans.items():
                d = delta.get(key[0])
                if d is None:
                    continue
                if (d[0] < 0 and g[0] == 0) or (d[1] < 0 and g[1] == 0) or (d[2] < 0 and g[2] == 0):
                    continue
                if d[2] > 0 and g[2] >= MAXS:
                    continue          # bound on simultaneous shared holders
                for pre, post in pairs:
                    if pre != word:
                        continue
                    steps += 1
                    if post is None:
                        undecided.append((key, word, g))
                        continue
                    ng = (g[0] + d[0], g[1] + d[1], g[2] + d[2])
                    if ng[0] > 1 or ng[1] > 1 or (ng[0] == 1 and (ng[1] >= 1 or ng[2] >= 1)):
                        bad.append('%s (line %s) is admitted on lock bits X=%d SIX=%d S=%d while the holders are X=%d SIX=%d S=%d: conflicting grants coexist'
                                   % (key[1], key[2], pre[0], pre[1], pre[2], g[0], g[1], g[2]))
                        continue
                    if post[2] > MAXS + 0 and False:
                        continue
                    if ng == (0, 0, 0) and post != (0, 0, 0):
                        bad.append('%s (line %s): the last holder is gone but the lock bits are X=%d SIX=%d S=%d: a fresh exclusive request is never admitted'
                                   % (key[1], key[2], post[0], post[1], post[2]))
                        continue
                    nst = (post, ng)
                    if nst not in seen:
                        todo.append(nst)
        ghosts = {g for _, g in seen}
        key = '%s no conflicting grants in any reachable state; the word is free again when the last holder leaves' % self.cls
        if bad:
            self.closure_ok = False
            self.sink.bad('C01.CLOSURE', key, self.rec['file'], bad[0], {'all': bad[:10]})
        elif undecided:
            self.sink.unsup('C01.CLOSURE', key, self.rec['file'], 'a reachable transition is not evaluable: %s' % (undecided[:3],))
        else:
            legal = {(0, 0, k) for k in range(MAXS + 1)} | {(0, 1, k) for k in range(MAXS + 1)} | {(1, 0, 0)}
            miss = legal - ghosts
            if miss:
                self.sink.unsup('C01.CLOSURE', key, self.rec['file'], 'holder states never reached (rows missing?): %s' % sorted(miss))
            else:
                self.closure_ok = True
                self.sink.ok('C01.CLOSURE', key, self.rec['file'], '%d reachable (word, holders) states, %d holder states (all %d legal ones), %d transitions applied, %d extracted rows'
                             % (len(seen), len(ghosts), len(legal), steps, len(trans)))
        # arbitration: a row that deviates from the canonical encoding (say, an exclusive holder's word keeps the SIX
        # bit) is not a violation if the closure over the real effects holds
        if self.closure_ok:
            for it in self.sink.items:
                if it['status'] == 'violated' and it['rule'] in ('C01.ADM', 'C01.REL', 'C10.UPG', 'C10.DOWN', 'C13.LOCKEXIT') and it.get('data', {}) and \
                        it['data'].get('kind') == 'encoding':
                    it['status'] = 'ok'
                    it['detail'] = 'non-canonical encoding of the holders, but the closure over the evaluated effects holds (C01.CLOSURE): ' + it['detail']

    # ---- helper: rows + return classification
    def rows_of(self, fn, p):
        rows = [e for k, e in self.word_events(p, fn) if is_write(e)]
        other = [e for e in p.events if e['kind'] == 'atomic' and is_write(e) and self.lock_obj_kind(e['obj'], fn) == 'NODE']
        return rows, other

    def expect_rows(self, fn, p, rows, other, specs, what):
        key = '%s [%s]' % (short(fn['name']), what)
        loc = '%s:%s' % (fn['file'], p.ret_line or fn['line'])
        for e in other:
            self.sink.bad('C01.WHO', '%s %s(%s)' % (short(fn['name']), e['op'], show(e['obj'])), loc_of(e),
                          'atomic write to an object that is not the lock word of the guarded lock')
        if len(rows) != len(specs) and getattr(p, 'maybe', False):
            self.sink.unsup('C01.ROWS', key, loc, 'path with %d write(s), expected %d, but its feasibility depends on a condition the '
                            'field abstraction cannot decide' % (len(rows), len(specs)))
            return False
        if len(rows) != len(specs):
            self.sink.bad('C01.ROWS', key, loc,
                          'path returning %s performs %d write(s) to the lock word (%s), expected %d (%s)'
                          % (what, len(rows), ', '.join('%s@%s' % (e['op'], e['line']) for e in rows), len(specs), ', '.join(specs) or 'none'),
                          {'blocks': p.blocks})
            return False
        self.sink.ok('C01.ROWS', key, loc, '%d write(s) to the lock word on the path, as the role requires' % len(rows))
        return True

    def role_acquire(self, fn, mode, paths, res):
        g = {'S': 'SGuard', 'SIX': 'SIXGuard', 'X': 'XGuard'}[mode]
        n = 0
        granting = []
        for p in paths:
            rg = self.ret_guard(p)
            rows, other = self.rows_of(fn, p)
            if rg is None or rg['guard'] != g:
                self.sink.unsup('C07.FACTORY', short(fn['name']), '%s:%s' % (fn['file'], p.ret_line), 'return value is not a %s' % g)
                continue
            own = rg['owning']
            lockptr = rg['fields'].get(self.ptr_field[g])
            if own is True and lockptr == S('this'):
                self.sink.ok('C07.FACTORY', '%s returns owning %s{this}' % (short(fn['name']), g), '%s:%s' % (fn['file'], p.ret_line), '')
            else:
                self.sink.bad('C07.FACTORY', '%s returns %s' % (short(fn['name']), show(p.ret)), '%s:%s' % (fn['file'], p.ret_line),
                              'blocking acquire must return a guard that owns the grant on this lock')
            if self.expect_rows(fn, p, rows, other, ['ADM:' + mode], 'owning ' + g):
                self.spec_check('ADM:' + mode, fn, p, rows[0])
                self.acq_order(fn, p, rows[0])
                granting.append((p, rows[0]))
                n += 1
        if n == 0:
            self.sink.unsup('C01.ADM', short(fn['name']), fn['file'], 'no granting path found')
        else:
            self.admit_complete(fn, mode, granting)

    def role_tryacq(self, fn, mode, paths, res):
        g = {'S': 'SGuard', 'SIX': 'SIXGuard', 'X': 'XGuard'}[mode]
        n = 0
        for p in paths:
            rg = self.ret_guard(p)
            rows, other = self.rows_of(fn, p)
            loc = '%s:%s' % (fn['file'], p.ret_line)
            if rg is None or rg['guard'] != g:
                self.sink.unsup('C07.FACTORY', short(fn['name']), loc, 'return value is not a %s' % g)
                continue
            if not rows:
                self.expect_rows(fn, p, rows, other, [], 'an empty guard (not granted)')
                self.sink.emit('C07.FACTORY', 'ok' if rg['owning'] is False else 'violated', '%s without a granting write returns an empty guard' % short(fn['name']), loc,
                               '' if rg['owning'] is False else 'returned %s although nothing was written to the lock word' % show(p.ret))
                continue
            lockptr = rg['fields'].get(self.ptr_field[g])
            good = rg['owning'] is True and lockptr == S('this')
            self.sink.emit('C07.FACTORY', 'ok' if good else 'violated', '%s returns owning %s{this} after its granting write' % (short(fn['name']), g), loc,
                           '' if good else 'returned %s: the grant written to the word has no owner' % show(p.ret))
            if self.expect_rows(fn, p, rows, other, ['ADM:' + mode], 'owning ' + g):
                self.spec_check('ADM:' + mode, fn, p, rows[0])
                self.acq_order(fn, p, rows[0])
                n += 1
        if n == 0:
            self.sink.unsup('C01.ADM', short(fn['name']), fn['file'], 'no granting path found')

    def admit_complete(self, fn, mode, granting):
        """C02.ADMIT (necessary for progress): on every word on which the mode is admissible under the compatibility matrix
        some granting path of the blocking acquire is feasible - otherwise the request spins for ever on a state that no
        other thread is obliged to change (a guard that is stronger than the admission predicate, e.g. an off-by-one
        boundary that rejects one particular free word)"""
        adm = {'S': lambda w: w.x == 0, 'SIX': lambda w: w.x == 0 and w.six == 0, 'X': lambda w: w.x == 0 and w.six == 0 and w.s == (0, 0)}[mode]
        toks = None
        conds_all = []
        for p, e in granting:
            conds_all += [c for c, _, _ in p.conds]
        toks = self.ev.tokens_for(conds_all, extra=self.boundary_tokens(conds_all))
        want = [c for c in self.ev.cells(toks) if adm(c)]
        reached, undecided = set(), False
        for p, e in granting:
            r = RowEval(self.ev, p, e)
            if not r.supported:
                return
            ws = word_symbols(p)
            ws.add(r.pre_sym)
            conds = [(c, o) for c, o, _ in p.conds if symbols(c) & ws] + list(r.extra_conds)
            syms = sorted(ws & set().union(*[symbols(c) for c, _ in conds] + [{r.pre_sym}]))
            try:
                for env, und in feasible_envs(self.ev, syms, conds, toks, {r.pre_sym: adm}, limit=300000):
                    reached.add(env[r.pre_sym].key())
                    undecided = undecided or bool(und)
            except OverflowError:
                return
        missing = [c for c in want if c.key() not in reached]
        key = '%s admits every word on which %s is admissible' % (short(fn['name']), mode)
        if not missing:
            self.sink.ok('C02.ADMIT', key, fn['file'], '%d admissible abstract words, each reaches a granting path' % len(want))
        else:
            self.sink.bad('C02.ADMIT', key, '%s:%s' % (fn['file'], fn['line']),
                          'no granting path is feasible on %s although the compatibility matrix admits %s there: the request spins for ever (%d of %d admissible words are rejected)'
                          % (fmt_cell(missing[0]), mode, len(missing), len(want)))

    def boundary_tokens(self, conds):
        """rest-field values named by the constants the path compares words with (K, K - 1, K + 1 within the rest field): a guard
        with an off-by-one boundary differs from the intended one exactly on such a value"""
        out = []
        rm = self.layout.RMASK
        if not rm:
            return out

        def walk(v):
            if not isinstance(v, tuple) or not v:
                return
            if v[0] == 'op' and len(v) == 5 and v[1] in ('<', '<=', '>', '>=', '==', '!='):
                for k in (v[2], v[3]):
                    if is_const(k) and 0 < k[1] <= rm:
                        for kk in (k[1] - 1, k[1], k[1] + 1):
                            if 0 < kk <= rm and ('c', kk) not in out:
                                out.append(('c', kk))
            for x in v:
                if isinstance(x, tuple):
                    walk(x)
        for c in conds:
            walk(c)
        return out[:6]

    def role_try(self, fn, mode, paths, res):
        g = {'S': 'SGuard', 'SIX': 'SIXGuard', 'X': 'XGuard'}[mode]
        for p in paths:
            rg = self.ret_guard(p)
            rows, other = self.rows_of(fn, p)
            if rg is None or rg['guard'] != g:
                self.sink.unsup('C07.FACTORY', short(fn['name']), '%s:%s' % (fn['file'], p.ret_line), 'return value is not a %s' % g)
                continue
            own = rg['owning']
            if own is None:
                # the guard is built from the OptGuard's lock pointer, valid by precondition
                own = rg['fields'].get(self.ptr_field[g]) == S('this->' + self.ptr_field['OptGuard'])
            if own:
                if self.expect_rows(fn, p, rows, other, ['ADM:' + mode], 'owning ' + g):
                    self.spec_check('ADM:' + mode, fn, p, rows[0])
                    self.acq_order(fn, p, rows[0])
                    self.try_version(fn, p, rows[0], mode, rg)
                self.sink.ok('C07.FACTORY', '%s owning return after a granting CAS' % short(fn['name']), '%s:%s' % (fn['file'], p.ret_line), '')
            else:
                self.expect_rows(fn, p, rows, other, [], 'empty ' + g)
                self.try_fail(fn, p)
            self.ver_refresh(fn, p)

    def role_prepare(self, fn, mode, paths, res):
        g = 'CompositeGuard'
        for p in paths:
            rg = self.ret_guard(p)
            rows, other = self.rows_of(fn, p)
            loc = '%s:%s' % (fn['file'], p.ret_line)
            if rg is None or rg['guard'] != g:
                self.sink.unsup('C13.RET', short(fn['name']), loc, 'return value is not a CompositeGuard')
                continue
            if rg['fields'].get(self.ptr_field[g]) != S('this'):
                self.sink.bad('C13.RET', '%s returns %s' % (short(fn['name']), show(p.ret)), loc, 'guard does not refer to this lock')
            if rg['owning']:
                if self.expect_rows(fn, p, rows, other, ['ADM:S:FREE'], 'owning CompositeGuard'):
                    self.spec_check('ADM:S:FREE', fn, p, rows[0])
                    self.spec_check('ADM:S', fn, p, rows[0], tag=' (PrepareRead)')
                    self.acq_order(fn, p, rows[0])
            else:
                if self.expect_rows(fn, p, rows, other, [], 'version-carrying CompositeGuard'):
                    self.sample_check('C13.VEREXIT', fn, p, rg['fields'].get('ver_') if 'ver_' in rg['fields'] else None, rg)

    def role_read(self, fn, mode, paths, res):
        for p in paths:
            rows, other = self.rows_of(fn, p)
            self.expect_rows(fn, p, rows, other, [], 'a read-only result')
        if fn['short'] == 'GetVersion':
            for p in paths:
                r = p.ret
                if isinstance(r, tuple) and r[0] == 'obj' and self.guard_of_record(r[1]) == 'OptGuard':
                    fx = self.ctor_effects(r[2])
                    sub = dict(zip(fx['params'], r[3])) if fx else {}
                    vals = {k: subst(v, sub) for k, v in (fx['fields'].items() if fx else [])}
                    verf = self.version_field('OptGuard')
                    self.sample_check('C03.SAMPLE', fn, p, vals.get(verf), None)
                    if vals.get(self.ptr_field['OptGuard']) != S('this'):
                        self.sink.bad('C03.SAMPLE', 'GetVersion guard target', '%s:%s' % (fn['file'], p.ret_line), 'OptGuard does not refer to this lock')
                else:
                    self.sink.unsup('C03.SAMPLE', 'GetVersion', fn['file'], 'return value is not an OptGuard')
        else:
            self.verify_check(fn, paths)

    def role_upgrade(self, fn, mode, paths, res):
        self.conversion(fn, paths, 'SIXGuard', 'XGuard', 'UPG')

    def role_downgrade(self, fn, mode, paths, res):
        self.conversion(fn, paths, 'XGuard', 'SIXGuard', 'DOWN')

    def role_convert(self, fn, pair, paths, res):
        gmode = {'SGuard': 'S', 'SIXGuard': 'SIX', 'XGuard': 'X'}
        self.conversion(fn, paths, pair[0], pair[1], 'CONV:%s:%s' % (gmode[pair[0]], gmode[pair[1]]))

    def conversion(self, fn, paths, gfrom, gto, spec):
        own = self.own_field[gfrom]
        entry = S('this->' + own)
        n_own = 0
        for p in paths:
            loc = '%s:%s' % (fn['file'], p.ret_line)
            ent = self.truth(entry, p)
            rg = self.ret_guard(p)
            rows, other = self.rows_of(fn, p)
            name = short(fn['name'])
            calls = [e for e in p.events if e['kind'] == 'call' and e.get('record') == self.rec_name and e['callee'] in self.roles]
            if calls:
                self.sink.bad('C10.NOGAP', '%s calls %s' % (name, calls[0]['name']), '%s:%s' % (fn['file'], calls[0]['line']),
                              'conversion releases / re-acquires the grant instead of converting it in place')
            if rg is None or rg['guard'] != gto:
                if ent is not False and rows:
                    self.spec_check(spec, fn, p, rows[0])
                if not calls:
                    self.sink.unsup('C07.CONV', name, loc, 'return value is not a %s' % gto)
                continue
            if ent is False:
                ok = self.expect_rows(fn, p, rows, other, [], 'an empty guard (source empty)')
                self.sink.emit('C07.CONV', 'ok' if (rg['owning'] is False and ok) else 'violated', '%s on an empty guard returns an empty guard' % name, loc,
                               '' if rg['owning'] is False else 'returned guard %s' % show(p.ret))
                continue
            if ent is None:
                self.sink.unsup('C07.CONV', name, loc, 'entry ownership not tested on this path')
                continue
            n_own += 1
            # source consumed
            final = p.store.get(('field', S('this'), own), entry)
            if spec.startswith('CONV:') and not rows and rg['owning'] is False and final in (entry, S('this->' + own)):
                # a Try-conversion that did not succeed: nothing written, the source keeps its grant, the result owns nothing
                self.sink.ok('C07.CONV', '%s failed attempt leaves the source guard and the lock word as they were' % name, loc, '')
                continue
            self.sink.emit('C07.CONV', 'ok' if (is_const(final) and final[1] == 0) else 'violated',
                           '%s consumes the source guard' % name, loc,
                           'this->%s = %s at the return' % (own, show(final)))
            # returned guard owns the saved lock
            lockptr = rg['fields'].get(self.ptr_field[gto])
            good = (lockptr == entry) and rg['owning'] is not False
            self.sink.emit('C07.CONV', 'ok' if good else 'violated',
                           '%s returns a guard owning the saved lock' % name, loc,
                           'returned %s; ownership argument = %s (entry value of this->%s is %s)'
                           % (show(p.ret), show(lockptr), own, show(entry)))
            # MCS-like extra fields (node) are handled in mcs.py
            if self.expect_rows(fn, p, rows, other, [spec], 'owning ' + gto):
                self.sink.ok('C10.NOGAP', '%s exactly one flag-changing write' % name, loc_of(rows[0]), 'no release call, one write')
                self.spec_check(spec, fn, p, rows[0])
                rank = {'S': 0, 'SIX': 1, 'X': 2}
                up = spec == 'UPG' or (spec.startswith('CONV:') and rank[spec.split(':')[2]] > rank[spec.split(':')[1]])
                if up:
                    self.acq_order(fn, p, rows[0])      # the new mode excludes holders the old one admitted: their sections must be visible
                else:
                    self.rel_order(fn, p, rows[0])      # the new mode admits requesters the old one excluded: the section so far must be visible to them
                if self.optimistic and not spec.startswith('CONV:'):
                    self.conv_version(fn, p, rows[0], spec, rg)
                elif self.optimistic and spec.endswith(':X'):
                    self.conv_version(fn, p, rows[0], 'UPG', rg)       # the new X guard's acquisition version is the certified word's
                elif self.optimistic and spec.startswith('CONV:X:'):
                    self.conv_version(fn, p, rows[0], 'DOWN', rg)      # the exclusive grant ends: the guard's new version is published
        if n_own == 0:
            self.sink.unsup('C07.CONV', short(fn['name']), fn['file'], 'no path with an owning source guard')

    def role_release(self, fn, mode, paths, res):
        # parametrised release functions are evaluated per call site (argument binding)
        binds = [None]
        if fn['params']:
            binds = []
            for cf, cp, ce in self.call_sites(fn['key']):
                b = {}
                for prm, a in zip(fn['params'], ce['args']):
                    b[S('p:' + prm['name'], prm['type'].get('bits') or 64)] = a
                binds.append((b, cf, ce))
            if not binds:
                self.sink.unsup('C01.REL', short(fn['name']), fn['file'], 'release function has parameters but no call site')
                return
        for p in paths:
            rows, other = self.rows_of(fn, p)
            if self.expect_rows(fn, p, rows, other, ['REL:' + mode], 'void (release %s)' % mode):
                self.sink.ok('C02.HANDOFF', '%s exactly one flag-clearing write per path' % short(fn['name']), loc_of(rows[0]), '')
                if binds == [None]:
                    self.spec_check('REL:' + mode, fn, p, rows[0])
                else:
                    for b, cf, ce in binds:
                        self.spec_check('REL:' + mode, fn, p, rows[0], bind=b, tag=' from %s:%s' % (short(cf['name']), ce['line']))
                self.rel_order(fn, p, rows[0])
            else:
                self.sink.bad('C02.HANDOFF', '%s exactly one flag-clearing write per path' % short(fn['name']),
                              '%s:%s' % (fn['file'], fn['line']), 'found %d' % len(rows))

    def role_release_inl(self, fn, mg, paths, res):
        """a guard destructor / move assignment that performs the release write itself: on paths where the guard owns
        the grant exactly one REL row on the guard's lock, on the others none"""
        mode, g = mg
        own = self.own_field[g]
        out = []
        for p in paths:
            rows, other = self.rows_of(fn, p)
            t = self.truth(S('this->' + own, 8), p)
            if t is None:
                t = self.truth(S('this->' + own), p)
            if t is None:
                if rows:
                    self.sink.bad('C01.ROWS', '%s [ownership not tested]' % short(fn['name']), loc_of(rows[0]),
                                  'the lock word is written on a path that does not test the ownership field')
                continue
            if not t:
                self.expect_rows(fn, p, rows, other, [], 'an empty guard')
                continue
            if self.expect_rows(fn, p, rows, other, ['REL:' + mode], 'owning guard (release %s)' % mode):
                self.sink.ok('C02.HANDOFF', '%s exactly one flag-clearing write per path' % short(fn['name']), loc_of(rows[0]), '')
                self.spec_check('REL:' + mode, fn, p, rows[0])
                self.rel_order(fn, p, rows[0])
                out.append((p, rows[0]))
            else:
                self.sink.bad('C02.HANDOFF', '%s exactly one flag-clearing write per path' % short(fn['name']),
                              '%s:%s' % (fn['file'], fn['line']), 'found %d' % len(rows))
        return out

    # ---- call sites
    def call_sites(self, callee_key):
        out = []
        for f in self.fns.values():
            for p in f.get('_feasible_paths') or self.paths(f)['paths']:
                for e in p.events:
                    if e['kind'] == 'call' and e.get('callee') == callee_key:
                        if not any(o[2]['line'] == e['line'] and o[0] is f and o[2]['args'] == e['args'] for o in out):
                            out.append((f, p, e))
        return out

    def who_may_call(self):
        """release functions are called only from destructors / move assignments of the guard of
        that mode, with the ownership field's lock as receiver"""
        for g, rel in self.release.items():
            grec = self.guards[g]['name']
            if rel is None:
                continue     # inline release: the writes are role rows of the destructor / move assignment (C01.WHO covers the rest)
            for f, p, e in self.call_sites(rel):
                if self.eng.private_helper(f):
                    continue      # a private helper of a guard class: the call is seen again, and judged, inside its callers
                key = '%s called from %s' % (short(self.facts.functions[rel]['name']) if rel in self.facts.functions else rel, short(f['name']))
                ok_fn = f.get('record') == grec and (f['kind'] == 'dtor' or f.get('move_assign'))
                # (a release function shared by two guard classes: the destructor / move assignment of the other one is judged there)
                other_g = [g2 for g2, r2 in self.release.items() if r2 == rel and self.guards[g2]['name'] == f.get('record') and g2 != g and
                           (f['kind'] == 'dtor' or f.get('move_assign'))]
                if not ok_fn and other_g:
                    continue
                if not ok_fn and f.get('record') == grec and f['kind'] == 'method':
                    continue      # another member of the same guard class (an early Unlock()): its bookkeeping is C07.MEMBER
                if not ok_fn:
                    self.sink.bad('C07.WHO', key, '%s:%s' % (f['file'], e['line']), 'a grant may be released only by its guard\'s destructor or move assignment')
                else:
                    self.sink.ok('C07.WHO', key, '%s:%s' % (f['file'], e['line']), '')

    # ---- memory orders (C08)
    def fence_after(self, p, e, kind):
        for x in p.events[e['seq'] + 1:]:
            if x['kind'] == 'fence' and ((kind == 'acquire' and has_acquire(x['order'])) or (kind == 'release' and has_release(x['order']))):
                return True
        return False

    def fence_before(self, p, e, kind):
        for x in p.events[:e['seq']]:
            if x['kind'] == 'fence' and has_release(x['order']):
                return True
        return False

    def acq_order(self, fn, p, e):
        self.acq_last(fn, p, e)
        o = e['orders'][0]
        key = '%s %s(%s) order=%s' % (short(fn['name']), e['op'], self.word, o)
        if e['op'] == 'store':
            self.sink.bad('C08.ACQ', key, loc_of(e), 'a plain store cannot certify an admission predicate')
            return
        good = has_acquire(o) or self.fence_after(p, e, 'acquire')
        self.sink.emit('C08.ACQ', 'ok' if good else 'violated', key, loc_of(e),
                       'the write that certifies the admission predicate must have acquire semantics: the new section '
                       'must synchronise with the release that ended every conflicting section')

    def acq_last(self, fn, p, row):
        """a grant is returned only after the admission predicate was certified; when the function keeps reading the word
        after the granting write (announce first, then wait until the conflicting holders have drained), the read that
        certifies the drained state is the one that must synchronise with their releases"""
        later = [e for k, e in self.word_events(p, fn) if e['seq'] > row['seq'] and e['op'] != 'store' and e['op'] not in ('wait', 'notify_one', 'notify_all')]
        if not later:
            return
        last = later[-1]
        o = last['orders'][1] if (last['op'] == 'cas' and not last['success'] and len(last['orders']) > 1) else last['orders'][0]
        good = has_acquire(o) or self.fence_after(p, last, 'acquire')
        self.sink.emit('C08.ACQ', 'ok' if good else 'violated', '%s %s(%s) order=%s after the granting write' % (short(fn['name']), last['op'], self.word, o), loc_of(last),
                       'the function returns its grant only after this read certified the word: it must have acquire semantics (it is the read that '
                       'observes the releases of the holders that were still present at the granting write)')

    def rel_order(self, fn, p, e):
        o = e['orders'][0]
        key = '%s %s(%s) order=%s' % (short(fn['name']), e['op'], self.word, o)
        good = has_release(o) or self.fence_before(p, e, 'release')
        self.sink.emit('C08.REL', 'ok' if good else 'violated', key, loc_of(e),
                       'the write that ends a critical section must have release semantics (reads inside the section '
                       'must be ordered before the next conflicting writer)')

    # ---- optimistic-only rules are in optimistic.py (mixed in)
    def try_version(self, *a):
        pass

    def try_fail(self, *a):
        pass

    def ver_refresh(self, *a):
        pass

    def sample_check(self, *a):
        pass

    def verify_check(self, *a):
        pass

    def conv_version(self, *a):
        pass

    def version_field(self, g):
        return None

    # ---- spins (C02 LIVE.SPIN)
    def check_spins(self):
        seen = set()
        for key, fn in self.fns.items():
            for p in fn.get('_feasible_paths', []):
                evs = p.events
                for i, e in enumerate(evs):
                    if e['kind'] != 'spin_begin':
                        continue
                    j = next((k for k in range(i + 1, len(evs)) if evs[k]['kind'] == 'spin_end' and evs[k]['lambda'] == e['lambda']), None)
                    if j is None or (e['lambda'], p.choices) in seen:
                        continue
                    inner = evs[i + 1:j]
                    loads = [x for x in inner if x['kind'] == 'atomic' and x['op'] in ('load', 'cas', 'exchange') or (x['kind'] == 'atomic' and x['op'] in RMW_OP)]
                    sk = '%s spin@%s' % (short(fn['name']), e['line'])
                    if sk in seen:
                        continue
                    seen.add(sk)
                    # exit condition must depend on a value read inside the iteration
                    ws = set()
                    for x in inner:
                        if x['kind'] == 'atomic' and x.get('result') is not None:
                            ws.add(x['result'])
                    lam_conds = [c for c, o, ln in p.conds if symbols(c) & ws]
                    if loads and lam_conds:
                        self.sink.ok('C02.SPIN', sk, '%s:%s' % (fn['file'], e['line']),
                                     'every iteration re-reads the lock word its exit condition tests (%s)' % show(lam_conds[0]))
                    elif any(x['kind'] == 'atomic' and x['op'] == 'cas' and x['success'] for x in inner):
                        self.sink.ok('C02.SPIN', sk, '%s:%s' % (fn['file'], e['line']), 'exit on a successful CAS executed inside the iteration')
                    else:
                        self.sink.bad('C02.SPIN', sk, '%s:%s' % (fn['file'], e['line']),
                                      'spin exit condition does not depend on a value read inside the loop body (stale value => spins for ever)')
        # iterations that do not exit must not have written anything
        for key, fn in self.fns.items():
            for it in self.paths(fn)['spin_fail']:
                for x in it:
                    if x['kind'] == 'atomic' and is_write(x):
                        self.sink.bad('C02.SPIN', '%s spin iteration writes without exiting' % short(fn['name']), loc_of(x),
                                      '%s on %s succeeds but the iteration returns false and is repeated' % (x['op'], show(x['obj'])))
        # the spin function itself
        for k, f in self.facts.functions.items():
            if f['name'].startswith(NS + 'SpinWithBackoff') and f['tu'] == self.tu:
                okf = self.eng.is_spin_function(f)
                self.sink.emit('C02.SPINFN', 'ok' if okf else 'violated', 'SpinWithBackoff instance @%s' % k.split('lambda at ')[-1].split(')')[0].split('/')[-1],
                               '%s:%s' % (f['file'], f['line']), self.eng.spin_reason(f))
                if okf:
                    rk, rd = self.eng.spin_rounds(f)
                    self.sink.emit('C02.SPINFN', 'ok' if rk else ('violated' if rk is False else 'unsupported'),
                                   'SpinWithBackoff instance @%s calls its procedure in every round' % k.split('lambda at ')[-1].split(')')[0].split('/')[-1],
                                   '%s:%s' % (f['file'], f['line']), rd)
