"""Epoch manager rules: C04 (EP.*), C16 (EPOCH.*), C17 (LIST.OWN / LIST.CONST / NODE.FREE),
C20 (NODE.ALLOC / NODE.FREE / DTOR.WALK) and the SHARED-FIELD discipline.  DESIGN.md section 4."""
import re
from facts import AnalysisBroken
from pathsim import S, C, show, symbols, is_const, is_atomic_record, cond_truth
from locks import Sink, has_acquire, has_release, is_write

NS = 'dbgroup::thread::'
MAXV = (1 << 64) - 1


def sname(n):
    return n.replace(NS, '').replace('component::', '')


def norm(v):
    return re.sub(r'#\d+', '', show(v))


class EpochRules:
    def __init__(self, fx, eng, sink):
        self.fx, self.eng, self.sink = fx, eng, sink
        self.em = fx.record(NS + 'EpochManager')
        self.node = fx.record(NS + 'EpochManager::ProtectedNode')
        self.tls = fx.record(NS + 'EpochManager::TLSEpoch')
        self.ep = fx.record(NS + 'component::Epoch')
        self.guard = fx.record(NS + 'EpochGuard')
        self.F = {}
        for n in ('GetCurrentEpoch', 'GetMinEpoch', 'GetProtectedEpochs', 'CreateEpochGuard', 'ForwardGlobalEpoch',
                  'CollectProtectedEpochs', 'RemoveOutDatedLists'):
            self.F[n] = fx.fn(NS + 'EpochManager::' + n)
        self.F['node.Get'] = fx.fn(NS + 'EpochManager::ProtectedNode::GetProtectedEpochs')
        for n in ('EnterEpoch', 'LeaveEpoch', 'GetProtectedEpoch', 'GetCurrentEpoch'):
            self.F['ep.' + n] = fx.fn(NS + 'component::Epoch::' + n)
        self.F['ep.Set'] = fx.fn(NS + 'component::Epoch::SetGrobalEpoch')
        # constructors: the default constructor is the anchor; further constructors (a "resume from epoch" variant ...) are held
        # to the same rules; copy / move constructors are a type-level matter (C04.TYPE)
        self.ctors = [f for f in fx.functions.values() if f.get('record') == self.em['name'] and f['kind'] == 'ctor' and not f.get('copy_ctor') and not f.get('move_ctor')]
        self.ctor = self.one([f for f in self.ctors if not f['params']] or self.ctors, 'EpochManager()')
        self.dtor = self.one([f for f in fx.functions.values() if f.get('record') == self.em['name'] and f['kind'] == 'dtor'], '~EpochManager')
        self.allfns = [f for f in fx.functions.values() if f['tu'] in ('epoch_manager.cpp', 'epoch.cpp', 'epoch_guard.cpp') and
                       (f.get('record') or '').startswith((self.em['name'], self.ep['name'], self.guard['name'])) and not eng.private_helper(f)]
        # fields by role
        self.glob = self.field_returned_by('GetCurrentEpoch')
        self.minf = self.field_returned_by('GetMinEpoch')
        ptr = [f for f in self.em['fields'] if f['pointer'] and 'ProtectedNode' in f['type']['ct']]
        arr = [f for f in self.em['fields'] if f.get('extent') and 'TLSEpoch' in f['type']['ct']]
        if len(ptr) != 1 or len(arr) != 1:
            raise AnalysisBroken('EpochManager: list head / slot array not found')
        self.head, self.slots = ptr[0]['name'], arr[0]['name']
        self.slots_extent = int(arr[0]['extent'])
        hb = [f for f in self.tls['fields'] if 'weak_ptr' in f['type']['ct']]
        epf = [f for f in self.tls['fields'] if f['type']['ct'] == self.ep['name']]
        if len(hb) != 1 or len(epf) != 1:
            raise AnalysisBroken('TLSEpoch: heartbeat / epoch members not found')
        self.hbf, self.epf = hb[0]['name'], epf[0]['name']
        nx = [f for f in self.node['fields'] if f['pointer'] and 'ProtectedNode' in f['type']['ct']]
        ls = [f for f in self.node['fields'] if 'std::array<std::vector' in f['type']['ct']]
        up = [f for f in self.node['fields'] if f['type'].get('bits') == 64 and not f['pointer']]
        if len(nx) != 1 or len(ls) != 1 or len(up) != 1:
            raise AnalysisBroken('ProtectedNode: next / lists / upper-epoch members not found')
        self.nextf, self.listsf, self.upf = nx[0]['name'], ls[0]['name'], up[0]['name']
        ent = [f for f in self.ep['fields'] if is_atomic_record(f['type']['ct']) and not f['pointer']]
        cur = [f for f in self.ep['fields'] if f['pointer']]
        if len(ent) != 1 or len(cur) != 1:
            raise AnalysisBroken('Epoch: entered / current members not found')
        self.entf, self.curf = ent[0]['name'], cur[0]['name']
        self.consts = fx.tu_constants('epoch_manager.cpp')

    def one(self, c, what):
        if len(c) != 1:
            raise AnalysisBroken('anchor %s: %d candidates' % (what, len(c)))
        return c[0]

    def paths(self, fn):
        return self.eng.paths(fn)['paths']

    def field_returned_by(self, getter):
        fn = self.F[getter]
        ps = self.paths(fn)
        if len(ps) == 1:
            for e in ps[0].events:
                if e['kind'] == 'atomic' and e['op'] == 'load' and e.get('result') == ps[0].ret and e['obj'][0] == 'field' and e['obj'][1] == S('this'):
                    return e['obj'][2]
        raise AnalysisBroken('%s does not return an atomic load of a data member' % getter)

    def loc(self, fn, line=None):
        return '%s:%s' % (fn['file'], line or fn['line'])

    # ================================================================== C16
    def c16(self):
        sink = self.sink
        init = self.consts.get(self.em['name'] + '::kInitialEpoch')
        cap = self.consts.get(self.em['name'] + '::kCapacity')
        sink.emit('C16.INIT', 'ok' if (init is not None and init == cap) else 'violated', 'kInitialEpoch equals the documented initial epoch (kCapacity)',
                  self.em['file'], 'kInitialEpoch=%s kCapacity=%s' % (init, cap))
        for p in self.paths(self.ctor):
            for e in p.events:
                if e['kind'] == 'init' and e['member'] in (self.glob, self.minf):
                    v = e['value']
                    val = v[3][0] if isinstance(v, tuple) and v[0] == 'obj' and v[3] else v
                    good = is_const(val) and val[1] == init
                    sink.emit('C16.INIT', 'ok' if good else 'violated', '%s starts at kInitialEpoch' % e['member'], self.loc(self.ctor, e.get('line')), 'initial value %s' % show(val))
        # any further constructor: minimum and current epoch start equal (GetMinEpoch never exceeds a later GetCurrentEpoch), and
        # the head node is the node of that epoch
        for c in self.ctors:
            if c['key'] == self.ctor['key']:
                continue
            for p in self.paths(c):
                if p.end == 'throw':
                    continue
                vals = {}
                for e in p.events:
                    if e['kind'] == 'init' and e['member'] in (self.glob, self.minf):
                        v = e['value']
                        vals[e['member']] = v[3][0] if isinstance(v, tuple) and v[0] == 'obj' and v[3] else v
                    elif e['kind'] == 'atomic' and is_write(e) and e['obj'][0] == 'field' and e['obj'][1] == S('this') and e['obj'][2] in (self.glob, self.minf):
                        vals[e['obj'][2]] = e.get('value')
                good = self.glob in vals and self.minf in vals and vals[self.glob] == vals[self.minf]
                sink.emit('C16.INIT', 'ok' if good else 'violated', '%s starts the minimum epoch at the current epoch' % sname(c['key']), self.loc(c, p.ret_line),
                          'both %s' % show(vals.get(self.glob)) if good else
                          'current epoch starts at %s, minimum epoch at %s: GetMinEpoch can exceed GetCurrentEpoch until the first forward' % (show(vals.get(self.glob)), show(vals.get(self.minf))))
        # C04.TYPE: guards and thread slots point into the manager: it is never copied or moved
        badm = [m for m in self.em.get('methods', []) if m.get('kind') in ('copy_ctor', 'move_ctor', 'copy_assign', 'move_assign') and not m.get('deleted')]
        sink.emit('C04.TYPE', 'ok' if not badm else 'violated', 'EpochManager is neither copyable nor movable', '%s:%s' % (self.em['file'], badm[0].get('line') if badm else self.em['line']),
                  'copy / move operations deleted' if not badm else
                  '%s is available: the guards alive at that moment keep pinning slots of the source object, which the new object never scans' % ', '.join(m['kind'] for m in badm))
        # who writes the two atomics
        fw = self.F['ForwardGlobalEpoch']
        for f in self.allfns:
            for p in self.paths(f):
                for e in p.events:
                    if e['kind'] == 'atomic' and is_write(e) and e['obj'][0] == 'field' and e['obj'][2] in (self.glob, self.minf) and e['obj'][1] == S('this'):
                        if f['key'] != fw['key'] and f['key'] not in {c['key'] for c in self.ctors}:
                            sink.bad('C16.STEP', '%s writes %s' % (sname(f['name']), e['obj'][2]), self.loc(f, e['line']), 'only ForwardGlobalEpoch may write the epoch words')
        for p in self.paths(fw):
            gw = [e for e in p.events if e['kind'] == 'atomic' and is_write(e) and e['obj'] == ('field', S('this'), self.glob)]
            mw = [e for e in p.events if e['kind'] == 'atomic' and is_write(e) and e['obj'] == ('field', S('this'), self.minf)]
            loads = [e for e in p.events if e['kind'] == 'atomic' and e['op'] == 'load' and e['obj'] == ('field', S('this'), self.glob)]
            good = len(gw) == 1 and gw[0]['op'] == 'store' and loads and gw[0]['value'] == ('op', '+', loads[0]['result'], C(1), 64) and loads[0]['seq'] < gw[0]['seq']
            sink.emit('C16.STEP', 'ok' if good else 'violated', 'ForwardGlobalEpoch stores (loaded global epoch + 1) exactly once', self.loc(fw, gw[0]['line'] if gw else None),
                      'stores %s' % [show(e.get('value')) for e in gw])
            if len(loads) > 1:
                sink.bad('C16.STEP', 'ForwardGlobalEpoch reads the global epoch once', self.loc(fw, loads[1]['line']), 'the stored value must derive from a single read')
            if gw:
                sink.emit('C16.STEP', 'ok' if has_release(gw[0]['orders'][0]) else 'violated', 'global epoch store order=%s' % gw[0]['orders'][0], self.loc(fw, gw[0]['line']),
                          'the list of the new epoch must be visible to whoever reads the new epoch: release')
            # min epoch = back() of the list filled in this call
            lst = self.list_obj(p)
            good = len(mw) == 1 and lst is not None and isinstance(mw[0]['value'], tuple)
            if good:
                backs = [e for e in p.events if e['kind'] == 'call' and e.get('name') == 'back' and e.get('obj') == lst and e['result'] == mw[0]['value']]
                col = [e for e in p.events if e['kind'] == 'call' and e.get('callee') == self.F['CollectProtectedEpochs']['key']]
                good = bool(backs) and bool(col) and col[0]['seq'] < backs[0]['seq']
                if not good and col and mw[0]['value'] == col[0].get('result') and self.collect_returns_back():
                    good = True     # the scan itself returns the last element of the list it built
            sink.emit('C16.MIN', 'ok' if good else 'violated', 'min epoch = last element of the list built in this call', self.loc(fw, mw[0]['line'] if mw else None),
                      'stores %s' % [show(e.get('value')) for e in mw])
            # publication order
            col = [e for e in p.events if e['kind'] == 'call' and e.get('callee') == self.F['CollectProtectedEpochs']['key']]
            good = len(col) == 1 and gw and col[0]['seq'] < gw[0]['seq'] and col[0]['args'][0] == loads[0]['result'] if loads else False
            sink.emit('C04.PUBLISH', 'ok' if good else 'violated', 'the list is filled (with the current epoch) before the new epoch is published', self.loc(fw, col[0]['line'] if col else None),
                      'CollectProtectedEpochs(cur, list) precedes the release store')
            if col and lst is not None:
                a1 = col[0]['args'][1] if len(col[0]['args']) > 1 else None
                good = a1 is not None and (a1 == ('lv', lst, None) or show(a1) == show(lst))
                sink.emit('C04.PUBLISH', 'ok' if good else 'violated', 'the list filled is the list of the next epoch', self.loc(fw, col[0]['line']), show(a1))
        self.scan()

    def cur_epoch(self, p):
        loads = [x for x in p.events if x['kind'] == 'atomic' and x['op'] == 'load' and x['obj'] == ('field', S('this'), self.glob)]
        return loads[0]['result'] if loads else None

    def is_next(self, p, v):
        cur = self.cur_epoch(p)
        return cur is not None and v == ('op', '+', cur, C(1), 64)

    def boundary_truth(self, p):
        """does this path of ForwardGlobalEpoch establish that the next epoch starts a new range?  (True/False/None, problem).
        Accepted spellings: (next & lower) ==/!= 0, (next % capacity) ==/!= 0, (cur & lower) ==/!= lower."""
        cur = self.cur_epoch(p)
        if cur is None:
            return None, None
        nxt = ('op', '+', cur, C(1), 64)
        lower = self.consts.get(self.em['name'] + '::kLowerMask')
        res, prob = None, None
        for c, o, _ in p.conds:
            neg = False
            while isinstance(c, tuple) and c and c[0] == 'not':
                c, neg = c[1], not neg
            if isinstance(c, tuple) and c and c[0] == 'ne0':
                c = ('op', '!=', c[1], C(0), 1)
            elif isinstance(c, tuple) and c and c[0] == 'op' and c[1] in ('&', '%'):
                c = ('op', '!=', c, C(0), 1)
            if not (isinstance(c, tuple) and c and c[0] == 'op' and c[1] in ('==', '!=')):
                continue
            a, b = c[2], c[3]
            if is_const(a) and not is_const(b):
                a, b = b, a
            if not (is_const(b) and isinstance(a, tuple) and a and a[0] == 'op' and a[1] in ('&', '%')):
                continue
            x, k = a[2], a[3]
            if is_const(x) and not is_const(k):
                x, k = k, x
            if not is_const(k):
                continue
            if not ((a[1] == '&' and k[1] == lower) or (a[1] == '%' and k[1] == lower + 1)):
                continue
            truth = (o != neg) if c[1] == '==' else ((not o) != neg)
            if x == nxt and b[1] == 0:
                res = truth
            elif x == cur and a[1] == '&' and b[1] == lower:
                res = truth
            elif x == cur and a[1] == '%' and b[1] == lower:
                res = truth
            else:
                prob = 'the range test %s does not test whether the next epoch (%s) starts a new range' % (show(c), show(nxt))
        if prob:
            return None, prob
        return res, None

    def collect_returns_back(self):
        """CollectProtectedEpochs returns back() of its list parameter, read after the list was sorted and trimmed, on every path"""
        f = self.F['CollectProtectedEpochs']
        lst = ('deref', S('&' + f['params'][1]['name']))
        ps = self.paths(f)
        if not ps:
            return False
        for p in ps:
            backs = [e for e in p.events if e['kind'] == 'call' and e.get('name') == 'back' and e.get('obj') == lst]
            ers = [e for e in p.events if e['kind'] == 'call' and e.get('name') == 'erase' and e.get('obj') == lst]
            r = p.ret
            if not (backs and ers and backs[-1]['seq'] > ers[-1]['seq'] and (r == backs[-1]['result'] or r == ('deref', backs[-1]['result']) or
                                                                              show(r) == show(('deref', backs[-1]['result'])))):
                return False
        return True

    def list_obj(self, p):
        """object path of the list ForwardGlobalEpoch obtains for next_epoch"""
        for e in p.events:
            if e['kind'] == 'call' and e.get('callee') == self.F['node.Get']['key']:
                a = e['args']
                loads = [x for x in p.events if x['kind'] == 'atomic' and x['op'] == 'load' and x['obj'] == ('field', S('this'), self.glob)]
                if loads and a and a[0] == ('op', '+', loads[0]['result'], C(1), 64):
                    return ('deref', e['result'])
        return None

    # ---- EP.SCAN + LIST.SORT
    def scan(self):
        sink, f = self.sink, self.F['CollectProtectedEpochs']
        lst = ('deref', S('&' + f['params'][1]['name']))
        cur = S('p:' + f['params'][0]['name'])
        ps = self.paths(f)
        general = 0
        ptr_loop = set()
        shape = []       # obligations about the *shape* of the loop (ascending index / pointer): arbitrated by scan_cover() below

        class _Shape:
            @staticmethod
            def emit(rule, status, key, loc, detail):
                shape.append((rule, status, key, loc, detail))

            @staticmethod
            def unsup(rule, key, loc, detail):
                shape.append((rule, 'unsupported', key, loc, detail))
        shp = _Shape
        for p in ps:
            ems = [e for e in p.events if e['kind'] == 'call' and e.get('obj') == lst and e.get('name') in ('emplace_back', 'push_back')]
            other = [e for e in p.events if e['kind'] == 'call' and e.get('obj') == lst and not e.get('const_method') and
                     e.get('name') not in ('emplace_back', 'push_back', 'reserve', 'begin', 'end', 'rbegin', 'rend', 'cbegin', 'cend', 'crbegin', 'crend', 'erase', 'data', 'size',
                                           'back', 'front', 'at', 'operator[]', 'empty', 'capacity')]
            for e in other:
                sink.bad('C04.SCAN', 'CollectProtectedEpochs %s on the list' % e['name'], self.loc(f, e['line']), 'unexpected mutation of the protected-epoch list')
            vals = [e['args'][0] if e['args'] else None for e in ems]
            good = len(vals) >= 2 and set(vals[:2]) == {cur, ('op', '+', cur, C(1), 64)}
            sink.emit('C04.SCAN', 'ok' if good else 'violated', 'current and next epoch are appended unconditionally', self.loc(f, ems[0]['line'] if ems else None),
                      'first appends: %s' % [show(v) for v in vals[:2]])
            # slot iterations
            exps = [e for e in p.events if e['kind'] == 'call' and e.get('name') == 'expired']
            for i, x in enumerate(exps):
                slot = x['obj'][1] if x['obj'][0] == 'field' else None   # address of the TLSEpoch
                idx = None
                try:
                    idx = slot[1][2]
                except Exception:
                    pass
                end = exps[i + 1]['seq'] if i + 1 < len(exps) else 10 ** 9
                seg = [e for e in p.events if x['seq'] < e['seq'] < end]
                exp_t = self.cond_of(p, x['result'])
                gets = [e for e in seg if e['kind'] == 'call' and e.get('callee') == self.F['ep.GetProtectedEpoch']['key']]
                app = [e for e in seg if e in ems]
                key_i = 'slot %s' % norm(idx)
                BASE = S('this->' + self.slots)
                END = ('op', '+', BASE, C(self.slots_extent), 64)
                idx_form = x['obj'][0] == 'field' and x['obj'][2] == self.hbf and isinstance(slot, tuple) and slot[0] == 'addr' and slot[1][0] == 'index' and \
                    slot[1][1] == ('field', S('this'), self.slots)
                ptr_form = x['obj'][0] == 'field' and x['obj'][2] == self.hbf and (slot == BASE or (isinstance(slot, tuple) and slot[0] == 's' and '~' in slot[1]))
                if not (idx_form or ptr_form):
                    shp.unsup('C04.SCAN', 'expired() receiver', self.loc(f, x['line']), show(x['obj']))
                    continue
                if idx_form and not is_const(idx):
                    general += 1
                    inb = any(c[0] == 'op' and c[1] == '<' and c[2] == idx and is_const(c[3]) and c[3][1] == self.slots_extent and o for c, o, _ in p.conds if isinstance(c, tuple))
                    shp.emit('C04.SCAN', 'ok' if inb else 'violated', 'scan index bounded by the number of slots', self.loc(f, x['line']),
                              'loop condition i < %d' % self.slots_extent)
                elif ptr_form and slot != BASE:
                    general += 1
                    inb = any(isinstance(c, tuple) and c[0] == 'op' and c[1] == '!=' and c[2] == slot and c[3] == END and o for c, o, _ in p.conds)
                    shp.emit('C04.SCAN', 'ok' if inb else 'violated', 'scan pointer bounded by the end of the slot array', self.loc(f, x['line']),
                              'loop condition p != slots + %d' % self.slots_extent)
                    ptr_loop.add(slot[1].split('~')[0])
                if exp_t is True:
                    sink.emit('C04.SCAN', 'ok' if not app else 'violated', '%s with expired heartbeat is skipped' % ('general' if not is_const(idx) else 'first'), self.loc(f, x['line']), '')
                    continue
                if exp_t is None:
                    sink.unsup('C04.SCAN', key_i, self.loc(f, x['line']), 'expired() outcome not on the path')
                    continue
                # live slot: its pin must be read and appended unless it is the sentinel
                same = [g for g in gets if g['obj'] == ('field', slot, self.epf)]
                if not same:
                    sink.bad('C04.SCAN', 'live slot is read', self.loc(f, x['line']), 'a slot with an unexpired heartbeat is not examined on this path')
                    continue
                v = same[0]['result']
                lt = None
                for c, o, _ in p.conds:
                    neg = False
                    while isinstance(c, tuple) and c and c[0] == 'not':
                        c, neg = c[1], not neg
                    if not (isinstance(c, tuple) and c and c[0] == 'op'):
                        continue
                    op, a, b = c[1], c[2], c[3]
                    if b == v and self.is_max(a):     # max OP v  ->  v OP' max
                        op = {'>': '<', '<': '>', '>=': '<=', '<=': '>=', '==': '==', '!=': '!='}.get(op)
                        a, b = b, a
                    if a == v and self.is_max(b):
                        if op in ('<', '!='):
                            lt = (o != neg)
                        elif op in ('==', '>='):
                            lt = ((not o) != neg)
                    elif a == v and b == cur and lt is None:
                        # pin < current epoch: pins equal to the current epoch are in the list anyway, the sentinel is not below it
                        if op == '<':
                            lt = (o != neg)
                        elif op == '>=':
                            lt = ((not o) != neg)
                if lt is None:
                    sink.unsup('C04.SCAN', 'sentinel test', self.loc(f, same[0]['line']), 'comparison of the pin with the sentinel not recognised')
                    continue
                if lt:
                    good = len(app) == 1 and app[0]['args'][0] == v
                    sink.emit('C04.SCAN', 'ok' if good else 'violated', 'a pinned epoch of a live slot is appended', self.loc(f, same[0]['line']),
                              'appends %s' % [show(a['args'][0]) for a in app])
                else:
                    sink.emit('C04.SCAN', 'ok' if not app else 'violated', 'only the sentinel is skipped', self.loc(f, same[0]['line']), '')
            # extra appends not accounted for
            if len(ems) > 2 + len([1 for x in exps if self.cond_of(p, x['result']) is False]):
                sink.bad('C04.SCAN', 'no other value is appended', self.loc(f), 'found %d appends' % len(ems))
            # loop start and step
            # LIST.SORT: sort(descending) -> unique -> erase post-dominate the scan
            names = [e.get('name') for e in p.events if e['kind'] == 'call']
            try:
                i1 = names.index('std::sort')
                i2 = names.index('std::unique', i1)
                i3 = names.index('erase', i2)
                srt = [e for e in p.events if e['kind'] == 'call' and e.get('name') == 'std::sort'][0]
                rb = [e for e in p.events if e['kind'] == 'call' and e.get('name') in ('rbegin', 'rend', 'crbegin', 'crend') and e['seq'] < srt['seq']]
                desc = any('greater' in repr(a) for a in srt['args']) or len(rb) >= 2
                last_app = max([e['seq'] for e in ems] or [0])
                good = desc and srt['seq'] > last_app
                # the range sorted is the whole list as it is after the last append
                whole = True
                def unwrap(a):
                    # a copy of an iterator (an argument passed by value, a named local holding begin() / end())
                    for _ in range(4):
                        if isinstance(a, tuple) and a and a[0] == 'obj' and len(a) > 3 and len(a[3]) == 1 and 'iterator' in str(a[1]):
                            a = a[3][0]
                        elif isinstance(a, tuple) and a and a[0] == 'lv' and a[1][0] == 'var':
                            d = [e for e in p.events if e['kind'] == 'decl' and e['name'] == a[1][2] and e['seq'] < srt['seq']]
                            w = [e for e in p.events if e['kind'] == 'assign_local' and e['path'][2] == a[1][2]]
                            if not d or w or d[-1].get('value') is None:
                                break
                            a = d[-1]['value']
                        else:
                            break
                    return a
                for a, names_ok in ((unwrap(srt['args'][0]) if srt['args'] else None, ('begin', 'rbegin', 'cbegin', 'crbegin')),
                                    (unwrap(srt['args'][1]) if len(srt['args']) > 1 else None, ('end', 'rend', 'cend', 'crend'))):
                    src = [e for e in p.events if e['kind'] == 'call' and e.get('obj') == lst and e.get('result') is not None and
                           (a == e['result'] or show(a) == show(e['result']) or show(a) == show(('deref', e['result'])))]
                    if not src or src[-1].get('name') not in names_ok or src[-1]['seq'] < last_app:
                        whole = False
                if not whole:
                    good = False
            except ValueError:
                good, desc = False, False
            sink.emit('C16.SORT', 'ok' if good else 'violated', 'the list is sorted descending, de-duplicated and trimmed after the scan', self.loc(f),
                      'std::sort(greater) over the whole list -> std::unique -> erase on every path' if good else
                      'sequence %s%s' % ([n for n in names if n in ('std::sort', 'std::unique', 'erase')], '' if desc and 'whole' in dir() and whole else
                                         ' (the sorted range is not [begin, end) of the list as it is after the last append, or the order is not descending)'))
        # the scan loop is left only through its own bound: every complete path has (i < N) == false
        loopvars = set()
        for p in ps:
            for x in p.events:
                if x['kind'] == 'call' and x.get('name') == 'expired' and x['obj'][0] == 'field':
                    try:
                        idx = x['obj'][1][1][2]
                    except Exception:
                        continue
                    if isinstance(idx, tuple) and idx[0] == 's' and '~' in idx[1]:
                        loopvars.add(idx[1].split('~')[0])

        def is_index(v):
            return isinstance(v, tuple) and v[0] == 's' and '~' in v[1] and v[1].split('~')[0] in loopvars
        END2 = ('op', '+', S('this->' + self.slots), C(self.slots_extent), 64)

        def is_ptr(v):
            return isinstance(v, tuple) and v[0] == 's' and '~' in v[1] and v[1].split('~')[0] in ptr_loop
        for p in ps:
            done = any(isinstance(c, tuple) and c[0] == 'op' and c[1] == '!=' and is_ptr(c[2]) and c[3] == END2 and not o for c, o, _ in p.conds) or \
                any(isinstance(c, tuple) and c[0] == 'op' and c[1] == '<' and is_index(c[2]) and is_const(c[3]) and c[3][1] == self.slots_extent and not o for c, o, _ in p.conds) or \
                any(isinstance(c, tuple) and c[0] == 'op' and c[1] in ('>=', '==') and is_index(c[2]) and is_const(c[3]) and c[3][1] == self.slots_extent and o for c, o, _ in p.conds)
            hard = [e for e in p.events if e['kind'] == 'cond' and e['value'] == C(0, 1)]
            shp.emit('C04.SCAN', 'ok' if done else 'violated', 'the scan leaves its loop only when every slot index was visited', self.loc(f, p.ret_line),
                      'exit through i < %d == false' % self.slots_extent if done else 'a path reaches the end of the function without the loop bound having failed (early break / return): slots are skipped')
        if not general:
            shp.unsup('C04.SCAN', 'general iteration', self.loc(f), 'no path through a general loop iteration')
        # loop variable: starts at 0, +1 per iteration
        upd = set()
        for p in ps:
            for e in p.events:
                if e['kind'] == 'assign_local' and e['path'][0] == 'var' and (e['path'][2] in loopvars or e['path'][2] in ptr_loop or not (loopvars or ptr_loop)):
                    upd.add('+1' if e.get('how') == '++' else norm(e['value']))
        shp.emit('C04.SCAN', 'ok' if upd == {'+1'} else 'violated', 'scan visits every slot index once (i = 0; i < N; ++i)', self.loc(f), 'index updates: %s' % sorted(upd))
        # arbitration: the loop may have any shape as long as every slot is examined exactly once; that is decided exactly
        # for a small capacity by following the loop concretely (scan_cover); the shape obligations are reported when the
        # coverage is refuted or cannot be decided
        cover, cdetail = self.scan_cover()
        shape_ok = all(st == 'ok' for _, st, _, _, _ in shape)
        if cover is True:
            sink.ok('C04.SCAN', 'every slot is examined exactly once (capacity 3, loop followed concretely)', self.loc(f), cdetail)
            for rule, st, key, loc, detail in shape:
                if st == 'ok':
                    sink.emit(rule, st, key, loc, detail)
        else:
            if cover is False:
                sink.bad('C04.SCAN', 'every slot is examined exactly once (capacity 3, loop followed concretely)', self.loc(f), cdetail)
            elif not shape_ok:
                sink.unsup('C04.SCAN', 'every slot is examined exactly once (capacity 3, loop followed concretely)', self.loc(f), cdetail)
            for rule, st, key, loc, detail in shape:
                sink.emit(rule, st, key, loc, detail)

    def scan_cover(self):
        """(True / False / None, detail): on facts extracted with three slots, every complete path of CollectProtectedEpochs -
        with the loop followed iteration by iteration, no widening - calls expired() on each of the slots 0, 1, 2 exactly once"""
        import facts as F2
        from pathsim import Engine as Eng2
        cache = self.fx.__dict__.setdefault('_scan_cover', {})
        if 'r' in cache:
            return cache['r']
        try:
            fx3 = F2.extract(['epoch_manager.cpp', 'epoch.cpp', 'epoch_guard.cpp', 'id_manager.cpp'], cmake_defs=['DBGROUP_MAX_THREAD_NUM=3'], repo=F2.REPO)
            eng3 = Eng2(fx3, max_paths=20000, max_header_visits=8, unroll=True)
            f3 = fx3.fn(NS + 'EpochManager::CollectProtectedEpochs')
            res = eng3.paths(f3)
        except AnalysisBroken as ex:
            cache['r'] = (None, 'not decidable: %s' % str(ex)[:120])
            return cache['r']
        BASE = S('this->' + self.slots)
        n_paths, bad = 0, None

        def slot_index(obj):
            if not (isinstance(obj, tuple) and obj and obj[0] == 'field' and obj[2] == self.hbf):
                return None
            a = obj[1]
            if a == BASE:
                return 0
            if isinstance(a, tuple) and a and a[0] == 'addr' and a[1][0] == 'index' and a[1][1] == ('field', S('this'), self.slots) and is_const(a[1][2]):
                return a[1][2][1]
            if isinstance(a, tuple) and a and a[0] == 'op' and a[1] == '+' and a[2] == BASE and is_const(a[3]):
                return a[3][1]
            return None
        for p in res['paths']:
            if p.end != 'return':
                continue
            n_paths += 1
            seen = []
            for e in p.events:
                if e['kind'] == 'call' and e.get('name') == 'expired':
                    i = slot_index(e['obj'])
                    if i is None:
                        cache['r'] = (None, 'not decidable: expired() on %s' % show(e['obj'])[:80])
                        return cache['r']
                    seen.append(i)
            if sorted(seen) != [0, 1, 2] and bad is None:
                bad = 'a complete path examines the slots %s instead of each of 0, 1, 2 once' % seen
        if not n_paths:
            cache['r'] = (None, 'not decidable: no complete path with the loop followed concretely (%d cut)' % res['cuts'])
        elif bad:
            cache['r'] = (False, bad)
        else:
            cache['r'] = (True, '%d complete paths, each examines slots 0, 1, 2 once' % n_paths)
        return cache['r']

    def is_max(self, v):
        return (is_const(v) and v[1] == MAXV) or 'numeric_limits' in show(v) and 'max' in show(v)

    def cond_of(self, p, v):
        return cond_truth(p.conds, v)

    # ================================================================== C04 (rest)
    def c04(self):
        sink = self.sink
        # EP.ENTER
        ent = ('field', S('this'), self.entf)
        for f in self.allfns:
            for p in self.paths(f):
                for e in p.events:
                    if e['kind'] == 'atomic' and is_write(e) and e['obj'][0] == 'field' and e['obj'][2] == self.entf:
                        if f['key'] == self.F['ep.EnterEpoch']['key']:
                            v = e['value']
                            inl = [x for x in p.events if x['kind'] == 'atomic' and x['op'] == 'load' and x.get('result') == v and
                                   x['obj'] == ('deref', S('this->' + self.curf)) and x['seq'] < e['seq']]
                            for x in inl:
                                sink.emit('C17.PUB', 'ok' if has_acquire(x['orders'][0]) else 'violated', 'global epoch read order=%s' % x['orders'][0], self.loc(f, x['line']),
                                          'the list of the epoch read must be visible: acquire')
                            good = e['op'] == 'store' and e['obj'] == ent and ((isinstance(v, tuple) and v[0] == 'app' and v[1] == 'GetCurrentEpoch') or bool(inl))
                            sink.emit('C04.ENTER', 'ok' if good else 'violated', 'EnterEpoch pins the current global epoch', self.loc(f, e['line']), 'stores %s' % show(v))
                        elif f['key'] == self.F['ep.LeaveEpoch']['key']:
                            good = e['op'] == 'store' and self.is_max(e['value']) and e['obj'] == ent
                            sink.emit('C04.ENTER', 'ok' if good else 'violated', 'LeaveEpoch stores the sentinel', self.loc(f, e['line']), 'stores %s' % show(e['value']))
                        else:
                            sink.bad('C04.ENTER', '%s writes the pinned epoch' % sname(f['name']), self.loc(f, e['line']), '')
        # entering pins and leaving un-pins on *every* path (a guard's constructor / destructor rely on it unconditionally)
        for nm, what in (('ep.EnterEpoch', 'EnterEpoch pins on every path'), ('ep.LeaveEpoch', 'LeaveEpoch un-pins on every path')):
            fE = self.F[nm]
            for p in self.paths(fE):
                ws = [e for e in p.events if e['kind'] == 'atomic' and is_write(e) and e['obj'] == ent]
                sink.emit('C04.ENTER', 'ok' if len(ws) == 1 else 'violated', what, self.loc(fE, p.ret_line),
                          'one store to %s' % self.entf if len(ws) == 1 else 'a path through the function performs %d writes to %s: the slot can keep / miss a pin although the guard exists / is gone' % (len(ws), self.entf))
        for p in self.paths(self.F['ep.GetCurrentEpoch']):
            lo = [e for e in p.events if e['kind'] == 'atomic' and e['op'] == 'load']
            good = len(lo) == 1 and p.ret == lo[0]['result'] and lo[0]['obj'] == ('deref', S('this->' + self.curf))
            sink.emit('C04.ENTER', 'ok' if good else 'violated', 'Epoch::GetCurrentEpoch loads the bound global epoch', self.loc(self.F['ep.GetCurrentEpoch']), '')
            if lo:
                sink.emit('C17.PUB', 'ok' if has_acquire(lo[0]['orders'][0]) else 'violated', 'global epoch read order=%s' % lo[0]['orders'][0], self.loc(self.F['ep.GetCurrentEpoch'], lo[0]['line']),
                          'the list of the epoch read must be visible: acquire')
        for p in self.paths(self.F['ep.GetProtectedEpoch']):
            lo = [e for e in p.events if e['kind'] == 'atomic' and e['op'] == 'load']
            good = len(lo) == 1 and p.ret == lo[0]['result'] and lo[0]['obj'] == ent
            sink.emit('C04.ENTER', 'ok' if good else 'violated', 'GetProtectedEpoch returns the pinned epoch', self.loc(self.F['ep.GetProtectedEpoch']), '')
        fld = next(f for f in self.ep['fields'] if f['name'] == self.entf)
        n = fld.get('init') or {}
        for _ in range(8):
            if n.get('k') == 'initlist' and n.get('items'):
                n = n['items'][0]
            elif n.get('k') == 'construct' and len(n.get('args') or []) == 1:
                n = n['args'][0]
            elif n.get('k') == 'cast':
                n = n['e']
            else:
                break
        ok0 = 'numeric_limits' in str(n) or (n.get('k') == 'const' and int(n['v']) == MAXV) or ('max' in str(n.get('callee', '')))
        sink.emit('C04.ENTER', 'ok' if ok0 else 'violated', 'a fresh slot pins nothing (sentinel)', '%s:%s' % (self.ep['file'], fld['line']), '')
        # EP.GUARD
        self.guard_rules()
        # EP.BIND
        f = self.F['CreateEpochGuard']
        for p in self.paths(f):
            gid = [e for e in p.events if e['kind'] == 'call' and e.get('name', '').endswith('IDManager::GetThreadID')]
            ctor = [e for e in p.events if e['kind'] == 'construct' and e['record'] == self.guard['name']]
            if len(gid) != 1 or len(ctor) != 1:
                sink.unsup('C04.BIND', 'CreateEpochGuard', self.loc(f), 'shape not recognised (thread ID / guard construction)')
                continue
            slot = ('addr', ('index', ('field', S('this'), self.slots), gid[0]['result']))
            good = ctor[0]['args'] and ctor[0]['args'][0] == ('addr', ('field', slot, self.epf))
            sink.emit('C04.BIND', 'ok' if good else 'violated', 'the guard pins the slot of the caller\'s thread ID', self.loc(f, ctor[0]['line']),
                      'guard on %s' % show(ctor[0]['args'][0]) if ctor[0]['args'] else '')
            # either the slot is (re-)bound to the caller on this path, or its stored heartbeat is known to be unexpired
            # (then, by C15, it is the caller's own)
            exp = [e for e in p.events if e['kind'] == 'call' and e.get('name') == 'expired' and e.get('obj') == ('field', slot, self.hbf) and e['seq'] < ctor[0]['seq']]
            live = any(self.cond_of(p, e['result']) is False for e in exp)
            setg = [e for e in p.events if e['kind'] == 'call' and e.get('callee') == self.F['ep.Set']['key'] and e['seq'] < ctor[0]['seq']]
            asg = [e for e in p.events if e['kind'] == 'call' and e.get('name') == 'operator=' and e.get('obj') == ('field', slot, self.hbf) and e['seq'] < ctor[0]['seq']]
            ghb = [e for e in p.events if e['kind'] == 'call' and e.get('name', '').endswith('IDManager::GetHeartBeat')]
            rebound = len(setg) >= 1 and setg[-1]['obj'] == ('field', slot, self.epf) and setg[-1]['args'][0] == ('addr', ('field', S('this'), self.glob)) and \
                len(asg) >= 1 and ghb and asg[-1]['args'] and asg[-1]['args'][0] == ghb[-1]['result']
            sink.emit('C04.BIND', 'ok' if (live or rebound) else 'violated',
                      'the slot is bound to the calling thread before the guard enters (%s)' % ('stored heartbeat unexpired' if live else 're-bound' if rebound else 'path'),
                      self.loc(f, ctor[0]['line']),
                      'SetGrobalEpoch(&global epoch) and heartbeat = GetHeartBeat() precede the guard' if rebound else 'heartbeat.expired() is false on this path' if live else
                      'a guard is created on a slot whose stored heartbeat is neither known to be unexpired nor replaced by the caller\'s: a thread that reuses the ID of an '
                      'exited thread keeps the dead heartbeat and the coordinator skips its pins')
        sets = self.paths(self.F['ep.Set'])
        good = len(sets) == 1 and any(e['kind'] == 'assign' and e['path'] == ('field', S('this'), self.curf) and e['value'] == S('p:' + self.F['ep.Set']['params'][0]['name']) for e in sets[0].events)
        sink.emit('C04.BIND', 'ok' if good else 'violated', 'SetGrobalEpoch binds the slot to the given epoch word', self.loc(self.F['ep.Set']), '')

    def guard_rules(self):
        sink = self.sink
        gname = self.guard['name']
        enter, leave = self.F['ep.EnterEpoch']['key'], self.F['ep.LeaveEpoch']['key']
        pf = [f['name'] for f in self.guard['fields'] if f['pointer']]
        if len(pf) != 1:
            raise AnalysisBroken('EpochGuard: pointer member not unique')
        pf = pf[0]
        for f in self.fx.functions.values():
            if f.get('record') != gname:
                continue
            ps = self.paths(f)
            if f['kind'] == 'ctor' and f.get('move_ctor'):
                src = S('&' + f['params'][0]['name'])
                p = ps[0]
                good = any(e['kind'] == 'init' and e['member'] == pf and e['value'] == S(show(('field', src, pf))) for e in p.events) and \
                    any(e['kind'] == 'assign' and e['path'] == ('field', src, pf) and is_const(e['value']) and e['value'][1] == 0 for e in p.events) and \
                    not any(e['kind'] == 'call' and e.get('callee') in (enter, leave) for e in p.events)
                sink.emit('C04.GUARD', 'ok' if good else 'violated', 'EpochGuard move constructor transfers the pin', self.loc(f), '')
            elif f['kind'] == 'ctor' and len(f['params']) == 1:
                p = ps[0]
                prm = S('p:' + f['params'][0]['name'])
                calls = [e for e in p.events if e['kind'] == 'call' and e.get('callee') == enter]
                good = len(calls) == 1 and calls[0]['obj'] in (('deref', prm),) and any(e['kind'] == 'init' and e['member'] == pf and e['value'] == prm for e in p.events)
                sink.emit('C04.GUARD', 'ok' if good else 'violated', 'EpochGuard(Epoch*) enters the epoch of its argument', self.loc(f), '')
            elif f['kind'] == 'dtor' or f.get('move_assign'):
                for p in ps:
                    own = cond_truth(p.conds, S('this->' + pf))
                    calls = [e for e in p.events if e['kind'] == 'call' and e.get('callee') == leave]
                    if own is None:
                        sink.bad('C04.GUARD', '%s path without ownership test' % sname(f['name']), self.loc(f), '')
                        continue
                    good = (len(calls) == 1 and calls[0]['obj'] == ('deref', S('this->' + pf))) if own else not calls
                    if f.get('move_assign') and good:
                        src = S('&' + f['params'][0]['name'])
                        good = p.store.get(('field', S('this'), pf)) == S(show(('field', src, pf))) and is_const(p.store.get(('field', src, pf))) and \
                            (not calls or calls[0]['seq'] < min([e['seq'] for e in p.events if e['kind'] == 'assign' and not (e['path'] == ('field', S('this'), pf) and is_const(e['value']))] or [10 ** 9]))
                    sink.emit('C04.GUARD', 'ok' if good else 'violated', '%s %s path leaves the epoch %s' % (sname(f['name']), 'owning' if own else 'empty', 'exactly once' if own else 'never'),
                              self.loc(f, p.ret_line), '')
        # any further member of the guard (an early Release(), a reset ...) keeps the books of the pin: on every path the pin held at
        # entry is still held (pointer untouched, nothing left), or left exactly once and the guard emptied
        for f in self.fx.functions.values():
            if f.get('record') != gname or f['kind'] != 'method' or f.get('const') or f.get('move_assign') or f.get('copy_assign'):
                continue
            entry = S('this->' + pf)
            for p in self.paths(f):
                if p.end == 'throw':
                    continue
                final = p.store.get(('field', S('this'), pf), entry)
                calls = [e for e in p.events if e['kind'] == 'call' and e.get('callee') == leave]
                if final == entry and not calls:
                    continue
                own = cond_truth(p.conds, entry)
                empty = is_const(final) and final[1] == 0
                what = '%s keeps the books of the pin (held, or left once and the guard emptied)' % sname(f['name'])
                gp = [q for q in f['params'] if q.get('isref') and q['type'].get('ct', '').replace('const ', '').strip() == gname]
                if len(gp) == 1 and len(f['params']) == 1 and not calls:
                    # swap(other): the two guards exchange their pins, none is taken or dropped
                    other = S('&' + gp[0]['name'])
                    of = p.store.get(('field', other, pf))
                    if final == S(show(('field', other, pf))) and of == entry:
                        sink.ok('C04.GUARD', what, self.loc(f, p.ret_line), 'the pin is exchanged with the other guard')
                        continue
                if own is False:
                    sink.emit('C04.GUARD', 'ok' if not calls else 'violated', what, self.loc(f, p.ret_line), 'empty guard: nothing to leave')
                elif len(calls) == 1 and calls[0]['obj'] == ('deref', entry) and empty:
                    sink.ok('C04.GUARD', what, self.loc(f, p.ret_line), 'left once, guard emptied')
                elif not calls and empty:
                    sink.bad('C04.GUARD', what, self.loc(f, p.ret_line),
                             'the guard is emptied without leaving the epoch: the destructor skips the leave, the slot keeps its pin for as long as the thread lives and the minimum epoch never advances')
                elif calls and not empty:
                    sink.bad('C04.GUARD', what, self.loc(f, p.ret_line), 'the epoch is left but the guard still refers to it: the destructor leaves again (a pin taken by a later guard of the thread is cleared)')
                else:
                    sink.bad('C04.GUARD', what, self.loc(f, p.ret_line), '%d leave call(s), %s = %s afterwards' % (len(calls), pf, show(final)))
        # the epoch a guard reports is the pin itself
        for f in self.fx.functions.values():
            if f.get('record') == gname and f['short'] == 'GetProtectedEpoch':
                for p in self.paths(f):
                    r = p.ret
                    good = isinstance(r, tuple) and r[0] == 'app' and r[1] == 'GetProtectedEpoch' and ('this->' + pf) in show(r)
                    sink.emit('C04.GUARD', 'ok' if good else 'violated', 'EpochGuard::GetProtectedEpoch reports the pinned epoch of its slot', self.loc(f, p.ret_line),
                              'returns %s' % norm(r)[:80] if good else 'returns %s, not the value the coordinator scans' % norm(r)[:80])
        # a thread's slot holds one pin and is not re-entrant: the coordinator (ForwardGlobalEpoch and what it calls) must not
        # create a guard of its own - entering overwrites, and leaving clears, the pin of a guard the calling thread may hold
        coord = self.reach({self.F['ForwardGlobalEpoch']['key']})
        n_bad = 0
        for k in coord:
            fk = self.fx.functions.get(k)
            if fk is None or not (fk.get('record') or '').startswith(self.em['name']):
                continue
            for p in self.paths(fk):
                for e in p.events:
                    if e['kind'] == 'call' and e.get('callee') in (self.F['CreateEpochGuard']['key'], enter, leave):
                        n_bad += 1
                        sink.bad('C04.GUARD', '%s creates an epoch guard while forwarding' % sname(fk['name']), self.loc(fk, e['line']),
                                 'the forwarding thread may hold a guard of its own: its slot has room for one pin, which the inner guard overwrites and then clears')
        if not n_bad:
            sink.ok('C04.GUARD', 'the coordinator never enters / leaves an epoch itself', self.loc(self.F['ForwardGlobalEpoch']), '%d functions reachable from ForwardGlobalEpoch' % len(coord))
        copy = [m for m in self.guard['methods'] if m['kind'] in ('copy_ctor', 'copy_assign') and not m['deleted']]
        sink.emit('C04.GUARD', 'ok' if not copy else 'violated', 'EpochGuard is not copyable', '%s:%s' % (self.guard['file'], self.guard['line']), '')

    # ================================================================== C17 / C20
    def c17(self):
        sink = self.sink
        f = self.F['GetProtectedEpochs']
        for p in self.paths(f):
            cg = [e for e in p.events if e['kind'] == 'call' and e.get('callee') == self.F['CreateEpochGuard']['key']]
            gp = [e for e in p.events if e['kind'] == 'call' and e.get('name') == 'GetProtectedEpoch']
            ng = [e for e in p.events if e['kind'] == 'call' and e.get('callee') == self.F['node.Get']['key']]
            def is_guard(obj):
                # the object CreateEpochGuard returned: bound to a reference, or held by value in a local initialised with it
                if not cg:
                    return False
                res = cg[0]['result']
                if obj in (('deref', res), res):
                    return True
                return isinstance(obj, tuple) and obj and obj[0] == 'var' and \
                    any(d['kind'] == 'decl' and d.get('did') == obj[1] and d.get('value') == res for d in p.events)
            good = len(cg) == 1 and len(gp) == 1 and len(ng) == 1 and cg[0]['seq'] < gp[0]['seq'] < ng[0]['seq'] and \
                is_guard(gp[0]['obj']) and ng[0]['args'][0] == gp[0]['result'] and ng[0]['args'][1] == S('this->' + self.head)
            sink.emit('C17.OWN', 'ok' if good else 'violated', 'the list is looked up by the returned guard\'s own epoch, after the guard was created', self.loc(f), '')
            r = p.ret
            good = isinstance(r, tuple) and r[0] == 'obj' and 'pair' in r[1] and len(r[3]) == 2 and cg and show(r[3][0]) in (show(('deref', cg[0]['result'])), show(cg[0]['result'])) and \
                ng and show(r[3][1]) == show(('deref', ng[0]['result']))
            sink.emit('C17.OWN', 'ok' if good else 'violated', 'the pair returned holds that guard and that list', self.loc(f, p.ret_line), 'returns %s' % show(r))
        # node lookup
        lo, up = self.consts.get(self.em['name'] + '::kLowerMask'), self.consts.get(self.em['name'] + '::kUpperMask')
        cap = self.consts.get(self.em['name'] + '::kCapacity')
        good = lo is not None and up is not None and lo ^ up == MAXV and lo & up == 0 and lo == cap - 1 and cap & (cap - 1) == 0
        sink.emit('C17.OWN', 'ok' if good else 'violated', 'lower/upper epoch masks partition the word (capacity a power of two)', self.em['file'], 'lower=%s upper=%s capacity=%s' % (lo, up, cap))
        lf = next(x for x in self.node['fields'] if x['name'] == self.listsf)
        m = re.search(r',\s*(\d+)\s*>\s*$', lf['type']['ct'])
        good = bool(m) and int(m.group(1)) == cap
        sink.emit('C17.OWN', 'ok' if good else 'violated', 'a node holds exactly kCapacity lists', '%s:%s' % (self.node['file'], lf['line']), lf['type']['ct'][-40:])
        g = self.F['node.Get']
        ep = S('p:' + g['params'][0]['name'])
        for p in self.paths(g):
            at = [e for e in p.events if e['kind'] == 'call' and e.get('name') in ('at', 'operator[]')]
            # the list slot: epoch & lower mask, spelled as a mask, a remainder, or epoch - (epoch & upper mask)
            idx_forms = (('op', '&', ep, C(lo), 64), ('op', '%', ep, C(cap), 64), ('op', '-', ep, ('op', '&', ep, C(up), 64), 64))
            good = len(at) == 1 and at[0]['obj'][0] == 'field' and at[0]['obj'][2] == self.listsf and at[0]['args'] and at[0]['args'][0] in idx_forms
            if good:
                nodev = at[0]['obj'][1]
                # the node selected: last loop condition false on it
                want_hi, want_lo = S(show(('field', nodev, self.upf))), ('op', '&', ep, C(up), 64)
                sel = []
                for c, o, _ in p.conds:
                    if isinstance(c, tuple) and c[0] == 'op' and not o:
                        if (c[1] == '>' and c[2] == want_hi and c[3] == want_lo) or (c[1] == '<' and c[3] == want_hi and c[2] == want_lo):
                            sel.append(c)
                    if isinstance(c, tuple) and c[0] == 'op' and o:
                        if (c[1] == '<=' and c[2] == want_hi and c[3] == want_lo) or (c[1] == '>=' and c[3] == want_hi and c[2] == want_lo):
                            sel.append(c)
                good = bool(sel)
            sink.emit('C17.OWN', 'ok' if good else 'violated', 'node lookup: first node whose range is not above the epoch, list = epoch & lower mask', self.loc(g, p.ret_line), '')
        # LIST.CONST: who mutates vectors
        allowed = {self.F['CollectProtectedEpochs']['key']} | {c['key'] for c in self.ctors}
        for f2 in self.allfns:
            for p in self.paths(f2):
                for e in p.events:
                    if e['kind'] == 'call' and (e.get('record') or '').startswith('std::vector<unsigned long') and not e.get('const_method') and \
                            e.get('name') not in ('begin', 'end', 'cbegin', 'cend', 'back', 'front', 'size', 'at', 'operator[]'):
                        okk = f2['key'] in allowed
                        sink.emit('C17.CONST', 'ok' if okk else 'violated', '%s %s on a protected-epoch list' % (sname(f2['name']), e['name']), self.loc(f2, e['line']),
                                  'lists are written only while they are filled (before their epoch is published)' if okk else 'list mutated outside CollectProtectedEpochs / the constructor')
        # NODE.FREE
        self.node_free()

    def node_free(self):
        sink = self.sink
        rm = self.F['RemoveOutDatedLists']
        for f in self.allfns:
            for p in self.paths(f):
                for e in p.events:
                    if e['kind'] != 'delete':
                        continue
                    if f['key'] == self.dtor['key']:
                        continue
                    if f['key'] != rm['key']:
                        sink.bad('C17.FREE', '%s deletes a list node' % sname(f['name']), self.loc(f, e['line']), 'nodes are freed only by RemoveOutDatedLists and the destructor')
                        continue
                    v = e['value']
                    unl = [x for x in p.events if x['kind'] == 'assign' and x['path'][0] == 'field' and x['path'][2] == self.nextf and x['seq'] < e['seq'] and
                           x['value'] == S(show(('field', v, self.nextf)))]
                    # pointer-to-pointer walk: `*link = node->next` where the node was read from `*link`
                    unl2 = [x for x in p.events if x['kind'] == 'assign' and x['path'][0] == 'deref' and x['seq'] < e['seq'] and
                            x['value'] == S(show(('field', v, self.nextf))) and v == S(show(x['path']))]
                    if unl2 and not unl:
                        sink.ok('C17.FREE', 'a node is unlinked (prev->next = node->next) before it is deleted', self.loc(f, e['line']),
                                'deletes %s after the cell that referred to it received its successor' % norm(v))
                        headp = ('addr', ('field', S('this'), self.head))
                        L = unl2[-1]['path'][1]
                        ne = [o for c, o, _ in p.conds if isinstance(c, tuple) and c[0] == 'op' and c[1] == '!=' and {c[2], c[3]} == {L, headp}]
                        sink.emit('C17.FREE', 'ok' if (ne and ne[-1]) else 'violated', 'the deleted node is not the one it was unlinked from (the head is never deleted)', self.loc(f, e['line']),
                                  'the rewritten cell is not the head pointer')
                        later = [x for x in p.events[e['seq'] + 1:] if (x['kind'] in ('read', 'assign') and x['path'][0] == 'field' and x['path'][1] == v) or
                                 (x['kind'] == 'call' and isinstance(x.get('obj'), tuple) and x['obj'] == ('deref', v))]
                        sink.emit('C20.UAF', 'ok' if not later else 'violated', 'no access to a node after it was deleted', self.loc(f, e['line']),
                                  '' if not later else 'access at line %s' % later[0].get('line'))
                        continue
                    good = bool(unl) and unl[-1]['path'][1] != v
                    sink.emit('C17.FREE', 'ok' if good else 'violated', 'a node is unlinked (prev->next = node->next) before it is deleted', self.loc(f, e['line']),
                              'deletes %s' % norm(v))
                    # never the head, never the predecessor itself
                    ne = [o for c, o, _ in p.conds if isinstance(c, tuple) and c[0] == 'op' and c[1] == '!=' and v in (c[2], c[3]) and unl and unl[-1]['path'][1] in (c[2], c[3])]
                    # a node reached as `pred->next` is a successor: it is neither the head nor its own predecessor
                    succ = bool(unl) and v == S(show(('field', unl[-1]['path'][1], self.nextf)))
                    sink.emit('C17.FREE', 'ok' if ((ne and ne[-1]) or succ) else 'violated', 'the deleted node is not the one it was unlinked from (the head is never deleted)', self.loc(f, e['line']),
                              'the successor of the node it is unlinked from' if succ else '')
                    later = [x for x in p.events[e['seq'] + 1:] if (x['kind'] in ('read', 'assign') and x['path'][0] == 'field' and x['path'][1] == v) or
                             (x['kind'] == 'call' and isinstance(x.get('obj'), tuple) and x['obj'] == ('deref', v))]
                    sink.emit('C20.UAF', 'ok' if not later else 'violated', 'no access to a node after it was deleted', self.loc(f, e['line']),
                              '' if not later else 'access at line %s' % later[0].get('line'))
        self.walk_invariant(rm)
        self.walk_end_rule(rm)
        # the walk compares every node with the protected epoch / node bits *current at that step*: a closure that copied one of
        # these variables when it was created and is used after the variable moved on decides on a stale value
        for fq in (rm, self.F['CollectProtectedEpochs'], self.F['ForwardGlobalEpoch']):
            stale = None
            for p in self.paths(fq):
                for L in [e for e in p.events if e['kind'] == 'lambda_create']:
                    for did, name in L['by_copy']:
                        asg = [e for e in p.events if e['kind'] == 'assign_local' and e['path'][0] == 'var' and e['path'][1] == did and e['seq'] > L['seq']]
                        if not asg:
                            continue
                        uses = [e for e in p.events if e['seq'] > asg[0]['seq'] and
                                ((e['kind'] == 'inline_begin' and e.get('callee') == L['fn']) or
                                 (e['kind'] == 'call' and any(a == ('lambda', L['fn']) for a in (e.get('args') or ()))))]
                        if uses and stale is None:
                            stale = (name, L, uses[0])
            if stale:
                sink.bad('C17.FREE', '%s uses a closure that copied `%s` before it changed' % (sname(fq['name']), stale[0]), self.loc(fq, stale[2].get('line')),
                         'the closure created at line %s captured `%s` by copy; the variable is assigned afterwards and the closure is used again: nodes are '
                         'compared with a stale value (a protected node can be unlinked and freed)' % (stale[1].get('line'), stale[0]))
            else:
                sink.ok('C17.FREE', '%s closures do not outlive the values they copied' % sname(fq['name']), self.loc(fq), '')
        # RemoveOutDatedLists does not modify the list it reads
        for p in self.paths(rm):
            for e in p.events:
                if e['kind'] == 'call' and (e.get('record') or '').startswith('std::vector<') and not e.get('const_method') and e.get('name') not in ('cbegin', 'cend', 'begin', 'end', 'back', 'front', 'at', 'operator[]', 'data', 'rbegin', 'rend', 'crbegin', 'crend'):
                    sink.bad('C17.CONST', 'RemoveOutDatedLists %s' % e['name'], self.loc(rm, e['line']), '')

    def walk_invariant(self, rm):
        """C20.WALKINV: in the retirement walk the trailing cursor is the walking cursor or its direct
        predecessor (prev == cur or prev->next == cur) after every general iteration; otherwise an unlink
        splices out nodes that are never deleted (leak) or deletes a node still linked."""
        sink = self.sink
        # the two cursors: locals initialised from the head
        cursors = None
        for p in self.paths(rm):
            names = []
            for e in p.events:
                if e['kind'] == 'decl' and e['type'].get('ct', '').endswith('ProtectedNode *') and e['name'] not in names:
                    names.append(e['name'])
            if len(names) >= 2:
                cursors = names[:2]
                break
        if not cursors:
            # a pointer-to-pointer walk has one cursor, the cell that refers to the visited node: trailing and walking position
            # cannot drift apart; the cell is only ever the head pointer or the `next` member of the node it referred to
            link = None
            for p in self.paths(rm):
                nm = [e['name'] for e in p.events if e['kind'] == 'decl' and e['type'].get('ct', '').endswith('ProtectedNode **')]
                if nm:
                    link = nm[0]
                    break
            if link is None:
                sink.unsup('C20.WALKINV', 'RemoveOutDatedLists', self.loc(rm), 'cursor variables not recognised')
                return
            headp = ('addr', ('field', S('this'), self.head))
            n = 0
            for p in self.paths(rm):
                cur = None
                for e in p.events:
                    if e['kind'] == 'decl' and e['name'] == link:
                        cur = e.get('value')
                        n += 1
                        sink.emit('C20.WALKINV', 'ok' if cur == headp else 'violated', 'the link cursor starts at the head pointer', self.loc(rm, e.get('line')), show(cur))
                    elif e['kind'] == 'loop_head' and link in dict(e.get('locals') or ()):
                        cur = dict(e['locals'])[link]
                    elif e['kind'] == 'assign_local' and e['path'][2] == link:
                        v = e['value']
                        n += 1
                        good = v == headp or (isinstance(v, tuple) and v[0] == 'addr' and v[1][0] == 'field' and v[1][2] == self.nextf and cur is not None and
                                              v[1][1] == S(show(cur[1] if isinstance(cur, tuple) and cur[0] == 'addr' else ('deref', cur))))
                        sink.emit('C20.WALKINV', 'ok' if good else 'violated', 'the link cursor advances to the `next` member of the node it refers to', self.loc(rm, e.get('line')),
                                  '%s = %s' % (link, show(v)))
                        cur = v
            if not n:
                sink.unsup('C20.WALKINV', 'RemoveOutDatedLists', self.loc(rm), 'no update of the link cursor found')
            self.keep_rule(rm, [link])
            return
        # which one walks: the one whose ->next is tested by the loop condition
        checked = 0
        for p in self.paths(rm):
            evs = p.events
            heads = [i for i, e in enumerate(evs) if e['kind'] == 'loop_head' and e['visit'] >= 2]
            for hi, i in enumerate(heads):
                h = evs[i]
                # segment until the next loop_head of the same header or the end
                j = next((k for k in range(i + 1, len(evs)) if evs[k]['kind'] == 'loop_head' and evs[k]['header'] == h['header']), len(evs))
                # inner loops have their own headers: only outermost (the first header seen on the path)
                first_header = next(e['header'] for e in evs if e['kind'] == 'loop_head')
                if h['header'] != first_header:
                    continue
                seg = evs[i + 1:j]
                if j == len(evs):
                    continue      # the loop exits from here: nothing to preserve
                cur = dict(h['locals'])
                mem = {}
                for e in seg:
                    if e['kind'] == 'assign_local' and e['path'][2] in cursors:
                        cur[e['path'][2]] = e['value']
                    elif e['kind'] == 'assign' and e['path'][0] == 'field' and e['path'][2] == self.nextf:
                        mem[e['path'][1]] = e['value']
                a, b = cur.get(cursors[0]), cur.get(cursors[1])
                if a is None or b is None:
                    continue

                eqs = set()
                for e in seg:
                    if e['kind'] == 'cond' and isinstance(e['value'], tuple) and e['value'][0] == 'op' and \
                            ((e['value'][1] == '!=' and not e['outcome']) or (e['value'][1] == '==' and e['outcome'])):
                        eqs.add((e['value'][2], e['value'][3]))
                        eqs.add((e['value'][3], e['value'][2]))

                def linked(x, y):
                    if x == y or (x, y) in eqs:
                        return True
                    if x in mem:
                        return mem[x] == y
                    return y == S(show(('field', x, self.nextf)))
                good = linked(a, b) or linked(b, a)
                checked += 1
                sink.emit('C20.WALKINV', 'ok' if good else 'violated', 'retirement walk keeps the trailing cursor adjacent to the walking cursor', self.loc(rm, seg[-1].get('line') if seg else None),
                          '%s = %s, %s = %s after the iteration' % (cursors[0], norm(a), cursors[1], norm(b)) if good else
                          'after an iteration %s = %s and %s = %s are not adjacent: a later unlink splices out nodes that are never freed' % (cursors[0], norm(a), cursors[1], norm(b)))
        if not checked:
            sink.unsup('C20.WALKINV', 'RemoveOutDatedLists', self.loc(rm), 'no general iteration of the walk found')
        self.keep_rule(rm, cursors)

    def walk_end_rule(self, rm):
        """C20.WALK: the retirement walk leaves its loop only at the end of the chain.  Running out of protected epochs is exactly the
        situation in which every remaining node (but the initial one) is out-dated: a walk that stops there keeps them for ever."""
        sink = self.sink
        n = 0
        for p in self.paths(rm):
            if p.end != 'return' or not any(e['kind'] == 'loop_head' for e in p.events):
                continue
            n += 1
            ends = [e for e in p.events if e['kind'] == 'cond' and isinstance(e['value'], tuple) and e['value'][0] == 'op' and e['value'][1] in ('!=', '==') and
                    ('->' + self.nextf) in show(e['value']) and any(is_const(x) and x[1] == 0 for x in e['value'][2:4]) and
                    ((e['value'][1] == '!=' and not e['outcome']) or (e['value'][1] == '==' and e['outcome']))]
            last_cond = [e for e in p.events if e['kind'] == 'cond']
            good = bool(ends) and (not last_cond or ends[-1]['seq'] >= max(e['seq'] for e in last_cond if e.get('line') == ends[-1].get('line')))
            sink.emit('C20.WALK', 'ok' if good else 'violated', 'the retirement walk ends only at the end of the chain', self.loc(rm, p.ret_line),
                      'left on node->next == nullptr' if good else
                      'a path leaves the walk although the cursor still has a successor: the nodes behind it are never examined again by this call; when the protected '
                      'epochs are exhausted these are exactly the out-dated ones, and the chain grows by one node per %s epochs' % self.consts.get(self.em['name'] + '::kCapacity', 256))
        if not n:
            sink.unsup('C20.WALK', 'RemoveOutDatedLists', self.loc(rm), 'no returning path through the walk loop')

    def rv_of(self, p, path):
        st = getattr(p, 'store', None) or {}
        return st.get(path)

    def keep_rule(self, rm, cursors):
        """C20.KEEP: a node survives an iteration of the retirement walk only on an *equality* test of its range bits (with the
        range bits of a protected epoch, or the initial range).  A node kept because its range merely compares above / below
        something stays although no protected epoch lies in its range: the chain grows with the number of epochs."""
        sink = self.sink
        bad = None
        kept = 0
        for p in self.paths(rm):
            evs = p.events
            first_header = next((e['header'] for e in evs if e['kind'] == 'loop_head'), None)
            heads = [i for i, e in enumerate(evs) if e['kind'] == 'loop_head' and e['header'] == first_header]
            for hi, i in enumerate(heads):
                j = heads[hi + 1] if hi + 1 < len(heads) else len(evs)
                if j == len(evs):
                    continue
                seg = evs[i + 1:j]
                if any(e['kind'] == 'delete' for e in seg):
                    continue
                loc = dict(evs[i].get('locals') or ())
                nodes = [show(loc[c]) for c in cursors if loc.get(c) is not None]
                if not nodes:
                    continue
                adv = [e for e in seg if e['kind'] == 'assign_local' and e['path'][2] in cursors]
                if not adv:
                    continue
                eq = order = None
                for e in seg:
                    if e['kind'] != 'cond' or not isinstance(e['value'], tuple) or e['value'][0] != 'op':
                        continue
                    o = e['value'][1]
                    txt = show(e['value'])
                    if not any(n in txt for n in nodes) or '->' + self.nextf in txt and 'GetUpperBits' not in txt and '&' not in txt:
                        continue
                    if (o == '==' and e['outcome']) or (o == '!=' and not e['outcome']):
                        eq = e
                    elif o in ('<', '<=', '>', '>='):
                        order = e
                kept += 1
                if eq is None and order is not None and bad is None:
                    bad = order
        if bad is not None:
            sink.bad('C20.KEEP', 'a node survives the retirement walk only when a protected epoch lies in its range (equality of range bits)', self.loc(rm, bad.get('line')),
                     'an iteration keeps the node on the order comparison %s alone: nodes whose range contains no protected epoch stay linked, '
                     'the chain grows with the number of epochs' % show(bad['value']))
        elif kept:
            sink.ok('C20.KEEP', 'a node survives the retirement walk only when a protected epoch lies in its range (equality of range bits)', self.loc(rm), '%d keeping iterations' % kept)

    def c20(self):
        sink = self.sink
        # NODE.ALLOC
        fw = self.F['ForwardGlobalEpoch']
        # C20.RETIRE: every forward retires.  A node becomes out-dated whenever the *set* of ranges holding a protected epoch
        # shrinks (the head moves on, a guard in a middle range is released), which no cheaper test than the walk itself detects;
        # a forward that skips the walk leaves such nodes linked, and the chain is no longer bounded by the ranges in use.  The
        # only path that may skip it is one on which the chain is known to have a single node.
        rm_key, col_key = self.F['RemoveOutDatedLists']['key'], self.F['CollectProtectedEpochs']['key']
        for p in self.paths(fw):
            if p.end == 'throw':
                continue
            def is_call(e, k):
                return (e['kind'] == 'call' and e.get('callee') == k) or (e['kind'] == 'inline_begin' and e.get('callee') == k)
            cols = [e for e in p.events if is_call(e, col_key)]
            rms = [e for e in p.events if is_call(e, rm_key)]
            single = any(isinstance(c, tuple) and c[0] == 'op' and show(c[2]) == 'this->%s->%s' % (self.head, self.nextf) and is_const(c[3]) and c[3][1] == 0 and
                         ((c[1] == '==' and o) or (c[1] == '!=' and not o)) for c, o, _ in p.conds)
            good = bool(rms) and (not cols or cols[-1]['seq'] < rms[-1]['seq'])
            if good and rms[-1]['kind'] == 'call' and cols and cols[-1]['kind'] == 'call':
                good = rms[-1]['args'][-1:] == cols[-1]['args'][-1:]
            sink.emit('C20.RETIRE', 'ok' if (good or single) else 'violated', 'every forward walks the chain and retires the out-dated nodes, with the list it has just collected',
                      self.loc(fw, p.ret_line),
                      'RemoveOutDatedLists after CollectProtectedEpochs' if good else 'single-node chain' if single else
                      'a path through ForwardGlobalEpoch does not call RemoveOutDatedLists on the collected list: nodes whose range lost its last protected epoch stay '
                      'linked until some later forward happens to walk the chain; the memory is not bounded by the ranges in use')
        for f in self.allfns:
            for p in self.paths(f):
                for e in p.events:
                    if e['kind'] == 'new' and 'ProtectedNode' in e['type']:
                        if f['key'] == fw['key']:
                            asg = [x for x in p.events if x['kind'] == 'assign' and x['path'] == ('field', S('this'), self.head) and x['value'] == e['result']]
                            init = e.get('init')
                            good = bool(asg) and isinstance(init, tuple) and init[0] == 'obj' and len(init[3]) == 2 and init[3][1] == S('this->' + self.head)
                            sink.emit('C20.ALLOC', 'ok' if good else 'violated', 'a new node becomes the head and links to the previous head', self.loc(f, e['line']), show(init))
                            # the node's range is the next epoch, and the lookup that follows sees the new head
                            good = isinstance(init, tuple) and init[0] == 'obj' and len(init[3]) == 2 and self.is_next(p, init[3][0])
                            sink.emit('C20.ALLOC', 'ok' if good else 'violated', 'a new node is created for the range of the next epoch', self.loc(f, e['line']), show(init))
                            look = [x for x in p.events if x['kind'] == 'call' and x.get('callee') == self.F['node.Get']['key']]
                            good = bool(look) and bool(asg) and all(x['seq'] > asg[0]['seq'] for x in look)
                            sink.emit('C20.ALLOC', 'ok' if good else 'violated', 'the new node is the head before the list of the next epoch is looked up', self.loc(f, e['line']), '')
                        elif f['key'] in {c['key'] for c in self.ctors}:
                            init = e.get('init')
                            good = isinstance(init, tuple) and init[0] == 'obj' and len(init[3]) == 2 and is_const(init[3][1]) and init[3][1][1] == 0
                            sink.emit('C20.ALLOC', 'ok' if good else 'violated', 'the initial node has no successor', self.loc(f, e['line']), show(init))
                            news_c = [x for x in p.events if x['kind'] == 'new' and 'ProtectedNode' in x['type']]
                            if len(news_c) > 1 and e is news_c[-1]:
                                sink.bad('C20.ALLOC', '%s allocates one initial node' % sname(f['key']), self.loc(f, e['line']),
                                         '%d nodes are allocated on a path through the constructor (a default member initialiser and the body?): all but the one that ends up as the head '
                                         'are unreachable and never freed' % len(news_c))
                        else:
                            sink.bad('C20.ALLOC', '%s allocates a list node' % sname(f['name']), self.loc(f, e['line']), '')
        # a node is allocated exactly when the next epoch starts a new range: decided on every path of ForwardGlobalEpoch
        for p in self.paths(fw):
            news = [e for e in p.events if e['kind'] == 'new' and 'ProtectedNode' in e['type']]
            bt, why = self.boundary_truth(p)
            loc = self.loc(fw, news[0]['line'] if news else p.ret_line)
            if bt is None:
                if why:
                    sink.bad('C20.ALLOC', 'a node is allocated exactly when the next epoch starts a new 256-epoch range', loc, why)
                else:
                    sink.unsup('C20.ALLOC', 'node boundary test', loc, 'no test of the next epoch against the range size found on this path')
                continue
            good = (len(news) == 1) if bt else (not news)
            sink.emit('C20.ALLOC', 'ok' if good else 'violated', 'a node is allocated exactly when the next epoch starts a new 256-epoch range', loc,
                      'boundary=%s, %d allocation(s) on the path' % (bt, len(news)))
            # the lookup uses the head as it is after the possible allocation
            for x in p.events:
                if x['kind'] == 'call' and x.get('callee') == self.F['node.Get']['key'] and len(x['args']) > 1:
                    want = news[0]['result'] if news else S('this->' + self.head)
                    sink.emit('C20.ALLOC', 'ok' if x['args'][1] == want else 'violated', 'the list of the next epoch is looked up from the current head', self.loc(fw, x['line']), show(x['args'][1]))
        # ProtectedNode ctor
        nc = [f for f in self.fx.functions.values() if f.get('record') == self.node['name'] and f['kind'] == 'ctor']
        for f in nc:
            for p in self.paths(f):
                ini = {e['member']: e['value'] for e in p.events if e['kind'] == 'init'}
                prm = [S('p:' + q['name'], q['type'].get('bits') or 64) for q in f['params']]
                good = len(prm) == 2 and ini.get(self.nextf) == prm[1] and ini.get(self.upf) == prm[0]
                sink.emit('C20.ALLOC', 'ok' if good else 'violated', 'ProtectedNode(epoch, next) stores both', self.loc(f), '')
        # DTOR.WALK
        d = self.dtor
        ps = self.paths(d)
        dels_total = 0
        for p in ps:
            dels = [e for e in p.events if e['kind'] == 'delete']
            dels_total += len(dels)
            seen = set()
            for e in dels:
                v = e['value']
                if v in seen:
                    sink.bad('C20.WALK', '~EpochManager deletes a node twice', self.loc(d, e['line']), norm(v))
                seen.add(v)
                nxt = [x for x in p.events if x['kind'] in ('assign_local', 'decl') and x['seq'] < e['seq'] and x.get('value') == S(show(('field', v, self.nextf)))]
                sink.emit('C20.WALK', 'ok' if nxt else 'violated', '~EpochManager reads node->next before deleting the node', self.loc(d, e['line']), norm(v))
            if dels:
                first = dels[0]['value']
                sink.emit('C20.WALK', 'ok' if first == S('this->' + self.head) else 'violated', '~EpochManager starts at the list head', self.loc(d, dels[0]['line']), norm(first))
            # exit only when the cursor is null: the pointer tested last is the successor of the last deleted node (or the head)
            last = S(show(('field', dels[-1]['value'], self.nextf))) if dels else S('this->' + self.head)
            nul = [c for c, o, _ in p.conds if isinstance(c, tuple) and c[0] == 'op' and c[1] in ('!=', '==') and is_const(c[3]) and c[3][1] == 0 and (o == (c[1] == '=='))]
            bases = {e['value'][1].split('~')[0] for q in ps for e in q.events if e['kind'] == 'delete' and isinstance(e['value'], tuple) and e['value'][0] == 's' and '~' in e['value'][1]}

            def cursor(v):
                # the head, the successor of the node deleted last, or the (widened) loop variable whose value is what an iteration deletes
                return v == last or v == S('this->' + self.head) and not dels or \
                    (isinstance(v, tuple) and v[0] == 's' and '~' in v[1] and v[1].split('~')[0] in bases and '->' not in v[1])
            good = bool(nul) and cursor(nul[-1][2])
            sink.emit('C20.WALK', 'ok' if good else 'violated', '~EpochManager walks until the cursor is null', self.loc(d, p.ret_line),
                      'the walk ends when %s is null' % show(last) if good else 'the walk ends on a test of %s, not of the successor of the last deleted node (%s): a node is leaked' % (show(nul[-1][2]) if nul else 'nothing', show(last)))
        if dels_total < 2:
            sink.unsup('C20.WALK', '~EpochManager', self.loc(d), 'no path through a general loop iteration')
        # after delete no access (generic, also in dtor)
        for p in ps:
            for e in p.events:
                if e['kind'] == 'delete':
                    v = e['value']
                    later = [x for x in p.events[e['seq'] + 1:] if x['kind'] in ('read', 'assign') and x['path'][0] == 'field' and x['path'][1] == v]
                    sink.emit('C20.UAF', 'ok' if not later else 'violated', '~EpochManager no access to a node after it was deleted', self.loc(d, e['line']), '')

    # ================================================================== SHARED-FIELD
    def shared_fields(self):
        """non-atomic members written by one role and accessed by the other"""
        sink = self.sink
        coord = self.reach({self.F['ForwardGlobalEpoch']['key']})
        worker = self.reach({self.F['CreateEpochGuard']['key'], self.F['GetProtectedEpochs']['key'], self.F['GetCurrentEpoch']['key'], self.F['GetMinEpoch']['key']} |
                            {f['key'] for f in self.fx.functions.values() if f.get('record') in (self.guard['name'],)})
        acc = {}   # (record, field) -> role -> {'w': [...], 'r': [...]}
        recs = {self.em['name']: self.em, self.tls['name']: self.tls, self.node['name']: self.node, self.ep['name']: self.ep}
        atomic = {(r['name'], f['name']) for r in recs.values() for f in r['fields'] if is_atomic_record(f['type']['ct']) and not f['pointer']}
        fieldrec = {}
        for r in recs.values():
            for f in r['fields']:
                fieldrec.setdefault(f['name'], r['name'])
        for role, keys in (('coordinator', coord), ('worker', worker)):
            for k in keys:
                f = self.fx.functions.get(k)
                if f is None or f['kind'] in ('ctor', 'dtor') and f.get('record') == self.em['name']:
                    continue
                for p in self.paths(f):
                    for e in p.events:
                        tgt, mode = None, None
                        if e['kind'] == 'assign' and e['path'][0] == 'field':
                            tgt, mode = e['path'][2], 'w'
                        elif e['kind'] == 'read' and e['path'][0] == 'field':
                            tgt, mode = e['path'][2], 'r'
                        elif e['kind'] == 'call' and isinstance(e.get('obj'), tuple) and e['obj'][0] == 'field' and not is_atomic_record(e.get('record') or '') \
                                and (e.get('record') or '') not in recs:
                            tgt, mode = e['obj'][2], ('r' if e.get('const_method') else 'w')
                        if tgt is None or tgt not in fieldrec or (fieldrec[tgt], tgt) in atomic:
                            continue
                        acc.setdefault((fieldrec[tgt], tgt), {}).setdefault(role, {'w': [], 'r': []})[mode].append('%s:%s' % (sname(f['name']), e.get('line')))
        IDIOM = {
            (self.node['name'], self.listsf): 'written once before publication (filled before the release store of its epoch, read after an acquire load of that epoch)',
        }
        for (rec, fld), roles in sorted(acc.items()):
            cw, ww = roles.get('coordinator', {}).get('w', []), roles.get('worker', {}).get('w', [])
            cr, wr = roles.get('coordinator', {}).get('r', []), roles.get('worker', {}).get('r', [])
            cross = (cw and (wr or ww)) or (ww and (cr or cw))
            key = '%s::%s' % (sname(rec), fld)
            if not cross:
                sink.ok('C04.SHARED', key, '', 'single role')
            elif (rec, fld) in IDIOM:
                sink.ok('C04.SHARED', key, '', IDIOM[(rec, fld)])
            else:
                rule = 'C17.SHARED' if (rec, fld) in ((self.em['name'], self.head), (self.node['name'], self.nextf)) else 'C04.SHARED'
                who = 'written by %s, %s' % (' and '.join(r for r, w in (('the coordinator', cw), ('workers', ww)) if w),
                                              'read by %s' % ' and '.join(r for r, x in (('the coordinator', cr), ('workers', wr)) if x) if (cr or wr) else 'never read')
                sink.bad(rule, '%s non-atomic member %s' % (key, who), (cw + ww)[0],
                         'coordinator writes %s reads %s; workers write %s read %s: a data race under the C++ memory model' % (sorted(set(cw))[:2], sorted(set(cr))[:2], sorted(set(ww))[:2], sorted(set(wr))[:2]))

    def reach(self, roots):
        seen, todo = set(), list(roots)
        while todo:
            k = todo.pop()
            if k in seen:
                continue
            seen.add(k)
            f = self.fx.functions.get(k)
            if f is None:
                continue
            for p in self.paths(f):
                for e in p.events:
                    if e['kind'] == 'call' and e.get('in_root') and e.get('callee'):
                        todo.append(e['callee'])
                    elif e['kind'] == 'construct' and e.get('in_root'):
                        todo.append(e['ctor'])
        return seen


def analyse(fx, eng):
    _cache = fx.__dict__.setdefault('_rule_cache', {})
    k = 'epoch'
    if k not in _cache:
        sink = Sink()
        r = EpochRules(fx, eng, sink)
        r.c16()
        r.c04()
        r.c17()
        r.c20()
        r.shared_fields()
        _cache[k] = (r, sink)
    return _cache[k]
