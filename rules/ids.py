"""Thread-ID manager rules: C15 (HB.ORDER / HB.SYNC / HB.LIFE), C05 (ID.CLAIM / ID.WHO /
ID.RANGE / ID.STABLE), C14 (ID.FREE / ID.PROBE).   DESIGN.md section 4."""
from facts import AnalysisBroken
from pathsim import S, C, show, symbols, is_const, is_atomic_record, cond_truth
from locks import Sink, has_acquire, has_release, is_write

NS = 'dbgroup::thread::'


def sname(n):
    return n.replace(NS, '')


class IdRules:
    def __init__(self, fx, eng, sink):
        self.fx, self.eng, self.sink = fx, eng, sink
        # anchors
        self.hb_rec = fx.record(NS + 'IDManager::HeartBeater')
        sp = [f for f in self.hb_rec['fields'] if 'shared_ptr' in f['type'].get('ct', '')]
        if len(sp) != 1:
            raise AnalysisBroken('HeartBeater: expected exactly one shared_ptr member (the heartbeat), found %d' % len(sp))
        self.idf = sp[0]['name']
        arr = [g for g in fx.globals.values() if g.get('extent') and g['file'].endswith('id_manager.cpp') and
               ('atomic<bool>' in g['type'].get('ct', '') or 'atomic_flag' in g['type'].get('ct', '') or
                any('atomic<bool>' in b or 'atomic_flag' in b for b in g.get('elem_bases') or ()))]
        self.bitmap = None         # bits per word when the reservation states are packed into atomic integer words
        if not arr:
            import re as _re
            words = [g for g in fx.globals.values() if g.get('extent') and g['file'].endswith('id_manager.cpp') and
                     _re.search(r'atomic<unsigned (long|int|long long|short|char)>', g['type'].get('ct', ''))]
            cap = fx.tu_constants('id_manager.cpp').get('dbgroup::thread::kMaxThreadNum')
            if len(words) == 1 and cap:
                w = {'char': 8, 'short': 16, 'int': 32, 'long': 64, 'long long': 64}[_re.search(r'atomic<unsigned (long long|long|int|short|char)>', words[0]['type']['ct']).group(1)]
                if int(words[0]['extent']) >= cap:
                    # one atomic word per ID (zero = free, non-zero = reserved): the flag rules apply, with "true" read as "non-zero"
                    arr = words
                elif int(words[0]['extent']) * w >= cap:
                    self.bitmap, arr = w, words
                    self.capacity = int(cap)
        if len(arr) != 1:
            raise AnalysisBroken('id_manager.cpp: reservation array (atomic<bool>[N] / atomic_flag[N] / bitmap of atomic words) not found uniquely')
        self.arr = arr[0]
        self.extent = int(self.arr['extent']) if not self.bitmap else self.capacity
        self.dtor = self.one([f for f in fx.functions.values() if f.get('record') == self.hb_rec['name'] and f['kind'] == 'dtor'], '~HeartBeater')
        self.fns = [f for f in fx.functions.values() if (f.get('record') or '').startswith(NS + 'IDManager') and f['tu'] == 'id_manager.cpp']
        self.getter = fx.fn(NS + 'IDManager::GetHeartBeater', 'id_manager.cpp')
        self.setid = self.method('SetID')
        self.paths = {f['key']: eng.paths(f) for f in self.fns}
        # a heartbeat created with a custom deleter: shared_ptr<size_t>{new size_t{id}, deleter}.  The deleter runs exactly once,
        # when the last owner drops the control block (after the heartbeat has expired): it may be the one place that frees the ID
        self.deleter = None
        for p in self.paths[self.setid['key']]['paths']:
            for e in p.events:
                if e['kind'] == 'construct' and (e.get('record') or '').startswith('std::shared_ptr<') and len(e.get('args') or ()) == 2 and \
                        isinstance(e['args'][1], tuple) and e['args'][1] and e['args'][1][0] == 'lambda':
                    self.deleter = fx.functions.get(e['args'][1][1])

    def one(self, c, what):
        if len(c) != 1:
            raise AnalysisBroken('anchor %s: %d candidates' % (what, len(c)))
        return c[0]

    def method(self, name):
        return self.one([f for f in self.fx.functions.values() if f.get('record') == self.hb_rec['name'] and f['short'] == name], 'HeartBeater::' + name)

    def is_flag(self, obj):
        return isinstance(obj, tuple) and obj[0] == 'index' and obj[1] == ('global', self.arr['q'])

    # ---- bitmap representation: flag i is bit (i % W) of word (i / W)
    @staticmethod
    def unext(v):
        while isinstance(v, tuple) and v and v[0] in ('ext', 'trunc') and len(v) > 1:
            v = v[1]
        return v

    def flag_id(self, idx):
        """the ID a subscript of the reservation array stands for"""
        if not self.bitmap:
            return idx
        w = self.bitmap
        v = self.unext(idx)
        if isinstance(v, tuple) and v and v[0] == 'op' and is_const(v[3]):
            if (v[1] == '/' and v[3][1] == w) or (v[1] == '>>' and (1 << v[3][1]) == w):
                return self.unext(v[2])
        return None

    def word_ok(self, idx, i):
        """idx is the word that holds the bit of ID i"""
        if not self.bitmap:
            return idx == i
        a, b = self.unext(idx), self.unext(i)
        if is_const(a) and is_const(b):
            return a[1] == b[1] // self.bitmap
        return self.flag_id(idx) == b

    def is_mask(self, v, i):
        """v is the full-width single-bit mask of ID i: 1 << (i % W) computed in the word's width"""
        w = self.bitmap
        if is_const(v) and is_const(self.unext(i)):
            return v[2] == w and v[1] == 1 << (self.unext(i)[1] % w)
        v = self.unext(v) if not (isinstance(v, tuple) and v and v[0] == 'ext') else v
        if isinstance(v, tuple) and v and v[0] == 'ext':
            return False        # a mask computed in a narrower type and widened afterwards
        if not (isinstance(v, tuple) and v and v[0] == 'op' and v[1] == '<<' and v[4] == w and is_const(v[2]) and v[2][1] == 1):
            return False
        sh = self.unext(v[3])
        if not (isinstance(sh, tuple) and sh and sh[0] == 'op' and is_const(sh[3])):
            return False
        if not ((sh[1] == '%' and sh[3][1] == w) or (sh[1] == '&' and sh[3][1] == w - 1)):
            return False
        return self.unext(sh[2]) == self.unext(i)

    def flag_events(self, p):
        return [e for e in p.events if e['kind'] == 'atomic' and self.is_flag(e['obj'])]

    def id_obj(self):
        return ('field', S('this'), self.idf)

    def idiom_guard(self):
        """the rules identify a reservation flag by its subscript expression; flags reached through pointers / iterators
        into the array are an idiom the rules cannot follow: say so (exit 2) instead of judging"""
        for f in self.fns:
            for p in self.paths[f['key']]['paths']:
                for e in p.events:
                    if e['kind'] == 'atomic' and not self.is_flag(e['obj']) and isinstance(e['obj'], tuple) and e['obj'][0] == 'deref' \
                            and f['tu'] == 'id_manager.cpp':
                        if self.deleter is not None and f['key'] == self.deleter['key']:
                            continue
                        if f['key'] not in (self.getter['key'], self.dtor['key']):
                            # another member of the ID classes that writes an atomic object through a pointer (a deleter, a reset
                            # helper ...): the only atomic objects here are the reservation flags
                            if is_write(e):
                                self.sink.bad('C05.WHO', '%s writes an atomic object through %s' % (sname(f['name']), show(e['obj'])[:40]), '%s:%s' % (f['file'], e['line']),
                                              'outside the claim loop and ~HeartBeater nothing may write the reservation flags (a second release frees an ID that was handed out again)')
                            continue
                        raise AnalysisBroken('%s:%s: %s reaches an atomic object through a pointer (%s), not by subscript of the reservation array: '
                                             'idiom not supported by the ID rules' % (f['file'], e['line'], sname(f['name']), show(e['obj'])[:60]))

    # ------------------------------------------------------------------ C15
    def c15(self):
        sink, f = self.sink, self.dtor
        res = self.paths[f['key']]
        if not res['paths']:
            raise AnalysisBroken('~HeartBeater: no complete path')
        for p in res['paths']:
            loc = '%s:%s' % (f['file'], f['line'])
            expire = None
            owner = self.id_obj()      # the object that keeps the control block alive: the member, or a local it was moved into
            owners = [owner]
            member_sym = S(show(self.id_obj()))
            for e in p.events:
                if e['kind'] == 'decl' and e.get('value') == member_sym and 'shared_ptr' in str((e.get('type') or {}).get('ct', e.get('type'))) \
                        and p.store.get(self.id_obj()) is not None and is_const(p.store.get(self.id_obj())) and owner == self.id_obj():
                    # `auto local = std::exchange(id_, nullptr)` / std::move(id_) followed by id_ = nullptr: the local is the last owner now
                    owner = ('var', e['did'], e['name'])
                    owners.append(owner)
                    continue
                if e['kind'] == 'auto_dtor' and owner[0] == 'var' and e.get('did') == owner[1]:
                    expire = expire or e
                    continue
                if owner != self.id_obj():
                    if e['kind'] == 'call' and e.get('obj') == owner and e.get('name') in ('reset',) and not (e.get('args') or ()):
                        expire = expire or e
                    continue
                if e['kind'] == 'call' and e.get('obj') == self.id_obj() and e.get('name') in ('reset', 'operator=', 'swap') and not e.get('const_method'):
                    # reset() / reset(nullptr) / = nullptr / = {} drop the control block reference
                    args = e.get('args') or ()
                    def empty(a):
                        a = a[1] if isinstance(a, tuple) and a and a[0] == 'lv' else a
                        if is_const(a):
                            return a[1] == 0
                        if isinstance(a, tuple) and a and a[0] == 'obj':
                            return all(empty(x) for x in a[3])
                        if isinstance(a, tuple) and a and a[0] == 'initlist':
                            return all(empty(x) for x in a[1])
                        return False
                    if (e['name'] == 'reset' and len(args) == 0) or (args and all(empty(a) for a in args)):
                        expire = expire or e
                elif e['kind'] == 'member_dtor' and e.get('member') == self.idf:
                    expire = expire or e
            frees = [e for e in self.flag_events(p) if is_write(e)]
            if self.deleter is not None:
                # the deleter frees the ID: the destructor itself must not (that would be a second release) and only has to drop the heartbeat
                sink.emit('C14.FREE', 'ok' if not frees else 'violated', '~HeartBeater leaves the release of the ID to the deleter of the heartbeat', loc,
                          'no flag write in the destructor' if not frees else 'the destructor clears the flag and the deleter clears it again: the second release frees an ID that was handed out meanwhile')
                sink.emit('C15.ORDER', 'ok' if expire is not None else 'unsupported', '~HeartBeater expires the heartbeat before it frees the ID', loc,
                          'the deleter runs after the last owner dropped the control block (use_count() == 0, expired() == true)')
                continue
            if self.bitmap:
                fid = self.flag_id(frees[0]['obj'][2]) if frees else None
                v = frees[0].get('value') if frees else None
                okf = len(frees) == 1 and frees[0]['op'] == 'fetch_and' and fid is not None and isinstance(v, tuple) and v and v[0] == 'bnot' and \
                    v[2] == self.bitmap and self.is_mask(v[1], fid)
                if not okf:
                    sink.bad('C14.FREE', '~HeartBeater clears its reservation bit exactly once', loc,
                             'a bit of a shared word is cleared by one fetch_and with the full-width complement of the own bit; found %s' %
                             [(e['op'], show(e.get('value'))[:60]) for e in frees])
                    continue
            elif len(frees) != 1 or frees[0]['op'] != 'store' or not (is_const(frees[0]['value']) and frees[0]['value'][1] == 0):
                sink.bad('C14.FREE', '~HeartBeater clears its reservation flag exactly once', loc,
                         'found %s' % [(e['op'], show(e.get('value'))) for e in frees])
                continue
            free = frees[0]
            sink.ok('C14.FREE', '~HeartBeater clears its reservation flag exactly once', '%s:%s' % (f['file'], free['line']), 'store(false) on every path of the destructor')
            if expire is None:
                sink.unsup('C15.ORDER', '~HeartBeater', loc, 'no event that drops the heartbeat found')
                continue
            good = expire['seq'] < free['seq']
            sink.emit('C15.ORDER', 'ok' if good else 'violated', '~HeartBeater expires the heartbeat before it frees the ID', '%s:%s' % (f['file'], free['line']),
                      'EXPIRE (%s at line %s) %s FREE (store(false) at line %s)%s' % (
                          expire.get('name') or 'implicit member destructor', expire.get('line'), 'precedes' if good else 'FOLLOWS', free['line'],
                          '' if good else ': another thread can be handed the ID while the previous owner\'s heartbeat is still unexpired'))
            o = free['orders'][0]
            sink.emit('C15.SYNC', 'ok' if has_release(o) else 'violated', '~HeartBeater FREE store order=%s' % o, '%s:%s' % (f['file'], free['line']),
                      'the expiry must happen-before the claimer\'s use of the ID: FREE needs release semantics')
            # index of the freed flag = the ID this object holds (read before the heartbeat was dropped)
            idx = free['obj'][2]
            derefs = [e for e in p.events if e['kind'] == 'call' and e.get('obj') in owners and e.get('name') in ('operator*', 'get', 'operator->')]
            reads = [e for e in p.events if e['kind'] == 'read' and e['path'][0] == 'deref' and any(show(d['result']) in show(e['path']) for d in derefs)]
            good = bool(derefs) and derefs[0]['seq'] < expire['seq'] and any(repr(d['result']) in repr(idx) or show(d['result']) in show(idx) for d in derefs) \
                and bool(reads) and reads[0]['seq'] < expire['seq']
            sink.emit('C05.WHO', 'ok' if good else 'violated', '~HeartBeater frees the flag of its own ID', '%s:%s' % (f['file'], free['line']),
                      'index %s' % show(idx))
        if self.deleter is not None:
            self.deleter_rules()
        # claim side: acquire
        for p in self.paths[self.getter['key']]['paths']:
            for e in self.flag_events(p):
                if is_write(e):
                    o = e['orders'][0]
                    self.sink.emit('C15.SYNC', 'ok' if has_acquire(o) else 'violated', 'claim %s order=%s' % (e['op'], o), '%s:%s' % (self.getter['file'], e['line']),
                                   'the claimer must observe the previous owner\'s expiry: the claiming RMW needs acquire semantics')
        # HB.LIFE: who touches the heartbeat member
        for f in self.fns:
            for p in self.paths[f['key']]['paths']:
                for e in p.events:
                    if e['kind'] == 'call' and e.get('obj') == self.id_obj() and not e.get('const_method'):
                        okw = (f['key'] == self.setid['key'] and e['name'] == 'operator=') or f['key'] == self.dtor['key']
                        self.sink.emit('C15.LIFE', 'ok' if okw else 'violated', '%s %s(%s)' % (sname(f['name']), e['name'], self.idf), '%s:%s' % (f['file'], e['line']),
                                       'the heartbeat is created by SetID and dropped by the destructor only' if okw else 'unexpected writer of the heartbeat')
        # SetID creates a fresh control block holding the ID
        for p in self.paths[self.setid['key']]['paths']:
            asg = [e for e in p.events if e['kind'] == 'call' and e.get('obj') == self.id_obj() and e['name'] == 'operator=']
            good = len(asg) == 1 and asg[0]['args'] and isinstance(asg[0]['args'][0], tuple) and asg[0]['args'][0][0] == 'app' and \
                'make_shared' in asg[0]['args'][0][1] and asg[0]['args'][0][2] == (S('p:' + self.setid['params'][0]['name']),)
            if not good and self.deleter is not None and len(asg) == 1 and asg[0]['args']:
                # shared_ptr<size_t>{new size_t{id}, deleter}
                a = asg[0]['args'][0]
                news = [e for e in p.events if e['kind'] == 'new' and e.get('init') == S('p:' + self.setid['params'][0]['name'])]
                good = isinstance(a, tuple) and a[0] == 'obj' and len(a[3]) == 2 and bool(news) and a[3][0] == news[0]['result']
            self.sink.emit('C15.LIFE', 'ok' if good else 'violated', 'SetID stores make_shared(id)', '%s:%s' % (self.setid['file'], self.setid['line']),
                           'heartbeat = fresh control block whose value is the ID')
        gh = self.method('GetHeartBeat')
        for p in self.paths[gh['key']]['paths']:
            r = p.ret
            good = isinstance(r, tuple) and r[0] == 'obj' and 'weak_ptr' in r[1] and len(r[3]) == 1 and \
                (r[3][0] == ('lv', self.id_obj(), None) or show(r[3][0]) == 'this->' + self.idf)
            self.sink.emit('C15.LIFE', 'ok' if good else 'violated', 'GetHeartBeat returns a weak_ptr to the heartbeat itself', '%s:%s' % (gh['file'], gh['line']),
                           'returns %s' % show(r))
        # nobody in the library turns a heartbeat into an owning pointer (that would keep it unexpired after the thread exit)
        for g in self.fx.functions.values():
            if not g['name'].startswith(NS):
                continue
            for p in self.eng.paths(g)['paths']:
                for e in p.events:
                    if e['kind'] == 'call' and e.get('name') == 'lock' and 'weak_ptr<unsigned long' in (e.get('record') or ''):
                        self.sink.bad('C15.LIFE', '%s locks a heartbeat' % sname(g['name']), '%s:%s' % (g['file'], e['line']),
                                      'weak_ptr::lock() creates a second owner of the control block: if the thread exits meanwhile its heartbeat does not expire although its ID is released')
        copyable = [m for m in self.hb_rec['methods'] if m['kind'] in ('copy_ctor', 'move_ctor', 'copy_assign', 'move_assign') and not m['deleted']]
        self.sink.emit('C15.LIFE', 'ok' if not copyable else 'violated', 'HeartBeater is neither copyable nor movable', '%s:%s' % (self.hb_rec['file'], self.hb_rec['line']),
                       'no second owner of the control block can exist' if not copyable else 'non-deleted: %s' % [m['kind'] for m in copyable])

    def deleter_rules(self):
        """the custom deleter of the heartbeat is the release of the ID: on every path it reads the ID from the object it is given,
        clears exactly that flag once with release semantics and deletes the object; nothing is read from the object afterwards"""
        sink, d = self.sink, self.deleter
        loc = '%s:%s' % (d['file'], d['line'])
        if self.bitmap or len(d['params']) != 1:
            sink.unsup('C14.FREE', 'deleter of the heartbeat', loc, 'deleter shape not supported (bitmap mode / parameters)')
            return
        ptr = S('p:' + d['params'][0]['name'])
        res = self.eng.paths(d)
        if not res['paths']:
            sink.unsup('C14.FREE', 'deleter of the heartbeat', loc, 'no complete path')
            return
        for p in res['paths']:
            frees = [e for e in self.flag_events(p) if is_write(e)]
            other = [e for e in p.events if e['kind'] == 'atomic' and is_write(e) and not self.is_flag(e['obj'])]
            good = len(frees) == 1 and not other and frees[0]['op'] == 'store' and is_const(frees[0]['value']) and frees[0]['value'][1] == 0
            sink.emit('C14.FREE', 'ok' if good else 'violated', 'the deleter of the heartbeat clears the reservation flag exactly once', loc,
                      'store(false) on every path of the deleter' if good else 'found %s' % [(e['op'], show(e.get('value'))) for e in frees + other])
            if not good:
                continue
            free = frees[0]
            o = free['orders'][0]
            sink.emit('C15.SYNC', 'ok' if has_release(o) else 'violated', 'deleter FREE store order=%s' % o, '%s:%s' % (d['file'], free['line']),
                      'the expiry must happen-before the claimer\'s use of the ID: FREE needs release semantics')
            dels = [e for e in p.events if e['kind'] == 'delete']
            reads = [e for e in p.events if e['kind'] == 'read' and e['path'] == ('deref', ptr)]
            idx = self.unext(free['obj'][2])
            own = idx == S(show(('deref', ptr))) and bool(reads) and (not dels or reads[0]['seq'] < dels[0]['seq'])
            sink.emit('C05.WHO', 'ok' if own else 'violated', 'the deleter frees the flag of the ID stored in the heartbeat', '%s:%s' % (d['file'], free['line']),
                      'index %s, read before the object is deleted' % show(idx) if own else 'index %s is not the value of the heartbeat object read before it is deleted' % show(idx))
            good = len(dels) == 1 and dels[0]['value'] == ptr
            sink.emit('C15.LIFE', 'ok' if good else 'violated', 'the deleter deletes the heartbeat object once', loc, '')

    # ------------------------------------------------------------------ C05
    def in_range(self, idx, p):
        if is_const(idx):
            return idx[1] < self.extent
        for c, o, _ in p.conds:
            if isinstance(c, tuple) and c[0] == 'op' and c[2] == idx and is_const(c[3]) and c[3][1] == self.extent:
                if (c[1] == '>=' and o is False) or (c[1] == '<' and o is True):
                    return True
            if isinstance(c, tuple) and c[0] == 'op' and c[3] == idx and is_const(c[2]) and c[2][1] == self.extent:
                if (c[1] == '<=' and o is False) or (c[1] == '>' and o is True):
                    return True
        # x % extent, x & (mask < extent)
        if isinstance(idx, tuple) and idx[0] == 'op' and idx[1] == '%' and is_const(idx[3]) and 0 < idx[3][1] <= self.extent:
            return True
        if isinstance(idx, tuple) and idx[0] == 'op' and idx[1] == '&' and is_const(idx[3]) and idx[3][1] < self.extent:
            return True
        return False

    def c05(self):
        sink, f = self.sink, self.getter
        # C05.INIT: the reservation states exist, all free, before any code can ask for an ID: the array is constant-initialised.
        # A dynamic initialiser (a non-constexpr constructor of a wrapper type, a non-constant initialiser) runs at some point
        # during program start-up and wipes the reservations of threads that obtained their ID before it
        ci = self.arr.get('const_init')
        if ci is None:
            sink.unsup('C05.INIT', 'the reservation array is constant-initialised', '%s:%s' % (self.arr['file'], self.arr['line']), 'not reported by the extractor')
        else:
            sink.emit('C05.INIT', 'ok' if ci else 'violated', 'the reservation array is constant-initialised', '%s:%s' % (self.arr['file'], self.arr['line']),
                      'static initialisation: all flags are free before any code runs' if ci else
                      '%s %s is initialised dynamically: an ID handed out before this translation unit\'s initialiser runs (from another unit\'s static '
                      'initialisation) is marked free again and handed to a second live thread' % (self.arr['type'].get('t'), self.arr['name']))
        res = self.paths[f['key']]
        n_claim = 0
        for p in res['paths']:
            sets = [e for e in p.events if e['kind'] == 'call' and e.get('callee') == self.setid['key']]
            fe = self.flag_events(p)
            loc = '%s:%s' % (f['file'], p.ret_line)
            for e in fe:
                idx = self.flag_id(e['obj'][2])
                if idx is None and self.bitmap and is_const(self.unext(e['obj'][2])):
                    wi = self.unext(e['obj'][2])[1]
                    sink.emit('C05.RANGE', 'ok' if wi < int(self.arr['extent']) else 'violated', 'GetHeartBeater word subscript %d' % wi, '%s:%s' % (f['file'], e['line']),
                              'constant word index within the %s words of %s' % (self.arr['extent'], self.arr['name']))
                    continue
                if idx is None:
                    sink.unsup('C05.RANGE', 'GetHeartBeater subscript %s' % self.norm(e['obj'][2]), '%s:%s' % (f['file'], e['line']), 'word index is not ID / bits-per-word')
                    continue
                sink.emit('C05.RANGE', 'ok' if self.in_range(idx, p) else 'violated', 'GetHeartBeater subscript %s' % self.norm(idx), '%s:%s' % (f['file'], e['line']),
                          'index %s < %d (extent of %s) on this path' % (show(idx)[:80], self.extent, self.arr['name']) if self.in_range(idx, p) else
                          'index %s is not bounded by the extent %d of %s on this path' % (show(idx)[:120], self.extent, self.arr['name']))
                if e['op'] == 'store':
                    sink.bad('C05.CLAIM', 'GetHeartBeater plain store to a reservation flag', '%s:%s' % (f['file'], e['line']),
                             'a flag may be claimed only by an RMW whose old value is tested')
            if not sets:
                if any(is_write(e) for e in fe):
                    sink.bad('C05.CLAIM', 'GetHeartBeater claims without recording the ID', loc, '')
                continue
            n_claim += 1
            if len(sets) != 1:
                sink.bad('C05.STABLE', 'GetHeartBeater one SetID per path', loc, 'found %d' % len(sets))
                continue
            st = sets[0]
            before = [e for e in fe if e['seq'] < st['seq'] and is_write(e)]
            last = before[-1] if before else None
            good = last is not None and last['op'] in ('exchange', 'cas', 'fetch_or') and self.word_ok(last['obj'][2], st['args'][0])
            why = ''
            if good and self.bitmap:
                # the bit of that ID is set by a fetch_or of its full-width mask and was found clear in the returned word
                t = cond_truth(p.conds, ('op', '&', last['result'], last['value'], self.bitmap)) if last['op'] == 'fetch_or' else None
                good = last['op'] == 'fetch_or' and self.is_mask(last['value'], self.unext(st['args'][0])) and t is False
                why = 'fetch_or of the bit of that ID; the bit was clear in the old word'
            elif good:
                if last['op'] == 'cas':
                    good = last['success'] and is_const(last['expected']) and last['expected'][1] == 0 and is_const(last['desired']) and last['desired'][1] == 1
                    why = 'CAS false->true succeeded'
                else:
                    t = cond_truth(p.conds, last['result'])
                    if t is None:
                        # the old value compared with zero (`exchange(kReserved) != kFree`), possibly after an integer promotion
                        for c, o, _ in p.conds:
                            if isinstance(c, tuple) and c and c[0] == 'op' and c[1] in ('!=', '==') and len(c) >= 4:
                                a, b = self.unext(c[2]), self.unext(c[3])
                                if (a == last['result'] and is_const(b) and b[1] == 0) or (b == last['result'] and is_const(a) and a[1] == 0):
                                    t = (o if c[1] == '!=' else not o)
                    v_ = self.unext(last['value'])
                    nonzero = (is_const(v_) and v_[1] != 0) or (isinstance(v_, tuple) and v_ and v_[0] == 'op' and v_[1] == '|' and
                                                                any(is_const(self.unext(x)) and self.unext(x)[1] != 0 for x in v_[2:4]))
                    good = nonzero and t is False
                    if not nonzero:
                        why_v = 'the value written by the claim (%s) is not known to be non-zero: a zero leaves the slot reading as free' % show(v_)[:60]
                    why = 'old value of the %s tested false on this path' % last['op']
            sink.emit('C05.CLAIM', 'ok' if good else 'violated', 'SetID(%s) only after a successful test-and-set of that flag' % self.norm(st['args'][0]), '%s:%s' % (f['file'], st['line']),
                      why if good else locals().get('why_v') or 'the ID passed to SetID was not claimed by an RMW whose old value was found false (last flag write: %s)' % (
                          '%s on flag %s' % (last['op'], show(last['obj'][2])[:60]) if last else 'none'))
            # stability: reached only when the thread has no ID yet
            hasid = [e['result'] for e in p.events if e['kind'] == 'call' and e.get('name') == 'HasID' and e['seq'] < st['seq']]
            good = bool(hasid) and cond_truth(p.conds, hasid[-1]) is False
            sink.emit('C05.STABLE', 'ok' if good else 'violated', 'SetID only when the thread has no ID yet', '%s:%s' % (f['file'], st['line']),
                      'guarded by !HasID()' if good else 'SetID reachable although the thread already has an ID')
        if n_claim == 0:
            sink.unsup('C05.CLAIM', 'GetHeartBeater', f['file'], 'no claiming path found')
        # a path on which the thread already has an ID must not touch flags
        for p in res['paths']:
            sets = [e for e in p.events if e['kind'] == 'call' and e.get('callee') == self.setid['key']]
            if not sets and not self.flag_events(p):
                sink.ok('C05.STABLE', 'GetHeartBeater with an ID leaves everything unchanged', '%s:%s' % (f['file'], p.ret_line), '')
        # thread_local holder
        decl = None
        for p in res['paths']:
            for e in p.events:
                if e['kind'] == 'decl' and 'HeartBeater' in (e['type'].get('ct') or ''):
                    decl = e
        good = decl is not None and decl['storage'] == 'thread_local'
        sink.emit('C05.STABLE', 'ok' if good else 'violated', 'the ID holder is a thread_local object', '%s:%s' % (f['file'], decl['line'] if decl else f['line']),
                  'storage %s' % (decl['storage'] if decl else '?'))
        # other writers of flags
        for g in self.fx.functions.values():
            if g['tu'] != 'id_manager.cpp' or g['key'] in (f['key'], self.dtor['key']) or self.eng.private_helper(g):
                continue     # helpers are analysed inside their callers
            if self.deleter is not None and g['key'] == self.deleter['key']:
                continue     # judged by deleter_rules()
            if not g['file'].endswith('id_manager.cpp') or self.eng.is_spin_function(g) or g.get('parent') in (f['key'], self.dtor['key']):
                continue     # instantiations of library templates (the spin helper) and lambdas of the two writers are covered there
            for p in self.eng.paths(g)['paths']:
                for e in self.flag_events(p):
                    if is_write(e):
                        sink.bad('C05.WHO', '%s writes a reservation flag' % sname(g['name']), '%s:%s' % (g['file'], e['line']), '')
                # an atomic object written through a pointer / reference / iterator in this translation unit can only be a
                # reservation flag (e.g. an initialiser that runs after the first IDs were handed out, a "reset" helper)
                for e in p.events:
                    if e['kind'] == 'atomic' and is_write(e) and not self.is_flag(e['obj']) and g['file'].endswith('id_manager.cpp') and \
                            isinstance(e['obj'], tuple) and e['obj'] and e['obj'][0] == 'deref':
                        sink.bad('C05.WHO', '%s writes an atomic object through %s' % (sname(g['name']) or 'a namespace-scope initialiser', show(e['obj'])[:40]),
                                 '%s:%s' % (g['file'], e['line']),
                                 'outside the claim loop and ~HeartBeater nothing may write the reservation flags (an ID that is already handed out becomes free again)')
        sink.ok('C05.WHO', 'only the claim loop and ~HeartBeater write reservation flags', self.arr['file'], '')
        # GetThreadID returns the stored ID
        gt = self.fx.fn(NS + 'IDManager::GetThreadID', 'id_manager.cpp')
        gid = self.method('GetID')
        okk = False
        for p in self.eng.paths(gt)['paths']:
            r = p.ret
            okk = isinstance(r, tuple) and r[0] == 'app' and r[1] == 'GetID' and 'GetHeartBeater' in show(r)
        sink.emit('C05.STABLE', 'ok' if okk else 'violated', 'GetThreadID returns GetHeartBeater().GetID()', '%s:%s' % (gt['file'], gt['line']), '')
        okk = False
        for p in self.eng.paths(gid)['paths']:
            okk = 'operator*' in show(p.ret) and self.idf in show(p.ret)
        sink.emit('C05.STABLE', 'ok' if okk else 'violated', 'GetID returns the value held by the heartbeat', '%s:%s' % (gid['file'], gid['line']), '')
        # HasID is true exactly when the holder owns a heartbeat (independent of other owners of the control block)
        hid = self.method('HasID')
        for p in self.eng.paths(hid)['paths']:
            r = p.ret
            txt = show(r)
            good = False
            if isinstance(r, tuple) and r[0] == 'op' and self.idf in txt:
                a, b = r[2], r[3]
                uc = isinstance(a, tuple) and a[0] == 'app' and a[1] in ('use_count', 'get', 'operator bool')
                if uc and is_const(b):
                    good = (r[1], b[1]) in (('>', 0), ('!=', 0), ('>=', 1))
            elif isinstance(r, tuple) and r[0] == 'ne0' and isinstance(r[1], tuple) and r[1][0] == 'app' and r[1][1] in ('operator bool', 'get', 'use_count') and self.idf in txt:
                good = True
            elif isinstance(r, tuple) and r[0] == 'app' and r[1] == 'operator bool' and self.idf in txt:
                good = True
            else:
                # id_ != nullptr  /  !(id_ == nullptr)  /  nullptr != id_
                neg, x = False, r
                while isinstance(x, tuple) and x and x[0] in ('not', 'ne0'):
                    neg, x = (not neg if x[0] == 'not' else neg), x[1]
                if isinstance(x, tuple) and x and x[0] == 'app' and x[1] in ('operator==', 'operator!=') and self.idf in txt:
                    args = [a for a in x[2] if not (isinstance(a, tuple) and a and a[0] == 'c' and a[2] == 8)]
                    nulls = [a for a in args if is_const(a) and a[1] == 0]
                    if len(args) == 2 and len(nulls) == 1:
                        good = (x[1] == 'operator!=') != neg
            sink.emit('C05.STABLE', 'ok' if good else 'violated', 'HasID is true whenever the holder owns a heartbeat', '%s:%s' % (hid['file'], hid['line']),
                      'returns %s' % txt[:80] if good else 'returns %s: a thread that already has an ID can be sent through the claim loop again' % txt[:80])
        # extents agree with the consumer (EpochManager::tls_fields_)
        em = self.fx.records.get(NS + 'EpochManager')
        if em:
            tf = [x for x in em['fields'] if x.get('extent') and 'TLSEpoch' in x['type'].get('ct', '')]
            if tf:
                good = int(tf[0]['extent']) == self.extent
                sink.emit('C05.RANGE', 'ok' if good else 'violated', 'per-ID slot array has the same extent as the reservation array', '%s:%s' % (em['file'], tf[0]['line']),
                          '%s[%s] vs %s[%d]' % (tf[0]['name'], tf[0]['extent'], self.arr['name'], self.extent))

    def norm(self, v):
        """stable rendering of an index expression (fresh-symbol counters removed)"""
        import re
        return re.sub(r'#\d+', '', show(v))[:70]

    # ------------------------------------------------------------------ C14
    def c14(self):
        sink, f = self.sink, self.getter
        res = self.paths[f['key']]
        # the probe index moves by +1 or wraps to 0
        idxvars = set()
        for p in res['paths']:
            for e in self.flag_events(p):
                for s in symbols(e['obj'][2]):
                    pass
        steps_ok, steps = True, 0
        probe_vars = set()
        for p in res['paths']:
            for e in self.flag_events(p):
                for ev2 in p.events:
                    if ev2['kind'] in ('assign_local', 'decl') and (ev2.get('path', (0, 0, ev2.get('name')))[2] or '') and \
                            (ev2.get('path', (0, 0, ev2.get('name')))[2] + '~') in show(e['obj'][2]):
                        probe_vars.add(ev2.get('path', (0, 0, ev2.get('name')))[2])
        from pathsim import mk_op
        for p in res['paths']:
            curv = {}      # variable name -> value before the update (declarations, widened loop variables, earlier updates)
            for e in p.events:
                if e['kind'] == 'decl' and 'value' in e:
                    curv[e['name']] = e['value']
                elif e['kind'] == 'loop_head':
                    curv.update(e.get('locals') or {})
                if e['kind'] == 'assign_local' and e['path'][2] and e['path'][0] == 'var':
                    v = e['value']
                    name = e['path'][2]
                    prev = curv.get(name)
                    curv[name] = v
                    def plus1(x):
                        return isinstance(x, tuple) and x[0] == 'op' and x[1] == '+' and is_const(x[3]) and x[3][1] == 1
                    N = self.extent
                    if is_const(v) and v[1] == 0:
                        steps += 1
                    elif prev is not None and v == mk_op('+', prev, C(1, 64), 64):
                        steps += 1    # previous value + 1 (folded when the previous value was a constant)
                    elif plus1(v) or (is_const(v) and e.get('how') == '++'):
                        steps += 1
                    elif isinstance(v, tuple) and v[0] == 'op' and v[1] == '%' and is_const(v[3]) and v[3][1] == N and (plus1(v[2]) or is_const(v[2])):
                        steps += 1    # (i + 1) % capacity
                    elif isinstance(v, tuple) and v[0] == 'op' and v[1] == '&' and is_const(v[3]) and v[3][1] == N - 1 and N & (N - 1) == 0 and (plus1(v[2]) or is_const(v[2])):
                        steps += 1    # (i + 1) & (capacity - 1), capacity a power of two in this configuration
                    elif e['path'][2] not in probe_vars:
                        continue
                    else:
                        steps_ok = False
                        sink.bad('C14.PROBE', 'probe index update %s' % self.norm(v), '%s:%s' % (f['file'], e['line']), 'index must advance by one or wrap to 0')
        if steps_ok and steps:
            sink.ok('C14.PROBE', 'probe index advances by one modulo the capacity', '%s:%s' % (f['file'], f['line']), '%d index updates, each +1 or reset to 0' % steps)
        elif not steps:
            sink.unsup('C14.PROBE', 'probe index', f['file'], 'no index update found')
        # the loop has no exit but a successful claim: every return path with flag reads ends in SetID
        for p in res['paths']:
            fe = self.flag_events(p)
            sets = [e for e in p.events if e['kind'] == 'call' and e.get('callee') == self.setid['key']]
            if fe:
                sink.emit('C14.PROBE', 'ok' if sets else 'violated', 'claim loop exits only with a claimed ID', '%s:%s' % (f['file'], p.ret_line), '')
        # a claimer must not block on one particular slot: any holder's exit has to be noticed
        for p in res['paths']:
            for e in self.flag_events(p):
                if e['op'] == 'wait':
                    sink.bad('C14.PROBE', 'claim loop blocks on a single reservation flag', '%s:%s' % (f['file'], e['line']),
                             'atomic wait on flag %s: the thread is woken only by the holder of that slot, although another ID may have been freed' % self.norm(e['obj'][2]))
        # a claimer that finds the table full may pause between two looks at it, but for a time bounded by a constant: a pause that
        # grows with the number of probes (exponential back-off on the probe counter) keeps the waiter asleep long after a holder exited
        for p in res['paths']:
            for e in p.events:
                if e['kind'] == 'call' and (e.get('name') or '').endswith(('sleep_for', 'sleep_until')):
                    txt = ' '.join(show(a) for a in (e.get('args') or ()))
                    if '~' in txt and not any(k in txt for k in ('min(', 'clamp(', 'std::min', 'std::clamp')):
                        sink.bad('C14.PROBE', 'the pause of a waiting claimer is bounded by a constant', '%s:%s' % (f['file'], e['line']),
                                 'the sleep time %s depends on a variable carried around the probe loop: the time between two looks at the table is unbounded, a waiter '
                                 'does not obtain an ID when a holder exits' % txt[:90])
                        break
        # neither the claim loop nor the exit path may block on a lock: a claimer that spins while holding it keeps every
        # exiting thread from giving its ID back
        for g in (f, self.dtor):
            for p in self.paths[g['key']]['paths']:
                for e in p.events:
                    rec_c = str(e.get('record') or '')
                    blocking = (e['kind'] == 'construct' and rec_c.startswith(('std::lock_guard<', 'std::unique_lock<', 'std::scoped_lock<', 'std::shared_lock<'))) or \
                        (e['kind'] == 'call' and e.get('name') in ('lock', 'lock_shared', 'wait', 'acquire') and ('mutex' in rec_c or 'condition_variable' in rec_c or 'semaphore' in rec_c))
                    if blocking:
                        sink.bad('C14.PROBE', '%s blocks on %s' % (sname(g['name']), rec_c.split('<')[0] or e.get('name')), '%s:%s' % (g['file'], e.get('line')),
                                 'claiming and releasing an ID must be lock-free: a thread that spins for a free ID while it holds the lock stops every exiting thread in its destructor, so no ID is ever freed')
        # loops re-read the flag (on the analysed paths: between two visits of a loop head an atomic read of a flag occurs)
        reread, iters = True, 0
        for p in res['paths']:
            evs = p.events
            heads = [i for i, e in enumerate(evs) if e['kind'] == 'loop_head' and e.get('depth', 0) == 0]
            for a, b in zip(heads, heads[1:]):
                if evs[a]['header'] != evs[b]['header']:
                    continue
                iters += 1
                if not any(x['kind'] == 'atomic' and self.is_flag(x['obj']) and x['op'] in ('load', 'exchange', 'cas', 'fetch_or') for x in evs[a:b]):
                    reread = False
        if iters:
            sink.emit('C14.PROBE', 'ok' if reread else 'violated', 'claim loop re-reads the flag in every iteration', '%s:%s' % (f['file'], f['line']),
                      '%d iterations examined' % iters)
        bm = self.eng.block_map(f)
        for h in []:
            # blocks of the cycle through h
            reach, todo = set(), [s for s in bm[h]['succs'] if s is not None]
            while todo:
                x = todo.pop()
                if x in reach:
                    continue
                reach.add(x)
                todo.extend(s for s in bm[x]['succs'] if s is not None)
            # back to h
            body = [b for b in f['blocks'] if b['id'] in reach and self.reaches(bm, b['id'], h)]
            has = any(el['kind'] == 'stmt' and el['e'].get('k') == 'mcall' and el['e'].get('method') in ('load', 'exchange', 'compare_exchange_weak', 'compare_exchange_strong')
                      for b in body + [bm[h]] for el in b['elems'])
            sink.emit('C14.PROBE', 'ok' if has else 'violated', 'claim loop re-reads the flag in every iteration', '%s:%s' % (f['file'], f['line']), '')
        # static-duration holder object => destructor runs at thread exit (C05.STABLE checks thread_local)

    def reaches(self, bm, a, target):
        seen, todo = set(), [a]
        while todo:
            x = todo.pop()
            if x == target:
                return True
            if x in seen:
                continue
            seen.add(x)
            todo.extend(s for s in bm[x]['succs'] if s is not None)
        return False


def analyse(fx, eng):
    _cache = fx.__dict__.setdefault('_rule_cache', {})
    k = 'ids'
    if k not in _cache:
        sink = Sink()
        try:
            r = IdRules(fx, eng, sink)
        except AnalysisBroken as ex:
            if 'reservation array' not in str(ex):
                raise
            # no namespace-scope table: is it a function-local static (construct on first use)?  That one is *destroyed* by exit()
            # while other threads may still run and start: after that point every slot of the freed table reads as free
            hit = None
            for f in fx.functions.values():
                if f.get('tu') != 'id_manager.cpp' or not f.get('blocks'):
                    continue
                try:
                    ps = eng.paths(f)['paths']
                except AnalysisBroken:
                    continue
                for p in ps:
                    for e in p.events:
                        if e['kind'] == 'decl' and e['storage'] == 'static' and 'atomic' in (e['type'].get('ct') or '') and \
                                ('vector' in e['type']['ct'] or 'unique_ptr' in e['type']['ct'] or 'deque' in e['type']['ct']):
                            hit = (f, e)
            if hit is None:
                raise
            f, e = hit
            sink.bad('C05.INIT', 'the reservation table exists, all free, before any code runs and until the process ends', '%s:%s' % (f['file'], e.get('line')),
                     'the table is the function-local static `%s` of type %s: it is destroyed during exit() while other threads still hold IDs and new threads can still start; '
                     'a thread that starts after that point reads freed memory as "free" and is handed an ID a live thread holds' % (e['name'], e['type']['ct']))
            sink.broken = str(ex)
            _cache[k] = (None, sink)
            return _cache[k]
        r.idiom_guard()
        r.c15()
        r.c05()
        r.c14()
        _cache[k] = (r, sink)
    return _cache[k]
