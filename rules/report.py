"""Obligation bookkeeping, known findings, evidence and exit codes (DESIGN.md 2.4, 8)."""
import json
import os
import re
import sys
import time

VERIF = os.path.dirname(os.path.dirname(os.path.abspath(__file__)))
KNOWN = os.path.join(VERIF, 'known_findings.txt')


def load_known():
    findings, fixed = [], []
    if not os.path.exists(KNOWN):
        return findings, fixed
    for ln in open(KNOWN):
        ln = ln.strip()
        if not ln or ln.startswith('#'):
            continue
        m = re.match(r'finding:\s*property=(\S+)\s+(.*?)\s+--\s+(.*)$', ln)
        if m:
            findings.append({'property': m.group(1), 'key': m.group(2).strip(), 'what': m.group(3)})
            continue
        m = re.match(r'fixed:\s*property=(\S+)\s+(\S+)\s+(.*)$', ln)
        if m:
            fixed.append({'property': m.group(1), 'commit': m.group(2), 'what': m.group(3)})
    return findings, fixed


class Report:
    """Collects obligations of one property check."""

    def __init__(self, pid, tier='quick'):
        self.pid = pid
        self.tier = tier
        self.t0 = time.time()
        self.obligations = []   # dict(rule, key, loc, status, detail)
        self.analysed = {'functions': set(), 'sites': set(), 'tus': set(), 'paths': 0}
        self.notes = []
        self.assumptions = []
        self.trusted = []
        self.explanation = ''
        self.rule_text = ''
        self.broken = []
        self.extra = {}

    # ---- recording
    def ok(self, rule, key, loc='', detail=''):
        self.obligations.append({'rule': rule, 'key': key, 'loc': loc, 'status': 'ok', 'detail': detail})

    def violation(self, rule, key, loc='', detail='', data=None):
        self.obligations.append({'rule': rule, 'key': key, 'loc': loc, 'status': 'violated', 'detail': detail,
                                 'data': data})

    def unsupported(self, rule, key, loc='', detail=''):
        """idiom not recognised: analysis-broken (exit 2), never a violation"""
        self.obligations.append({'rule': rule, 'key': key, 'loc': loc, 'status': 'unsupported', 'detail': detail})
        self.broken.append('%s %s at %s: %s' % (rule, key, loc, detail))

    def check(self, cond, rule, key, loc='', detail_ok='', detail_bad='', data=None):
        if cond:
            self.ok(rule, key, loc, detail_ok)
        else:
            self.violation(rule, key, loc, detail_bad or detail_ok, data)
        return cond

    def floor(self, what, found, minimum):
        """a rule that matches fewer instances than confirmed by hand is broken, not passed"""
        if found < minimum:
            self.broken.append('instance floor not met: %s: found %d < %d' % (what, found, minimum))

    def saw_fn(self, fn):
        self.analysed['functions'].add('%s (%s:%s)' % (fn['name'], os.path.basename(fn['file']), fn['line']))
        self.analysed['tus'].add(fn.get('tu', ''))

    # ---- finishing
    def finish(self, seed=0, quiet=False):
        findings, _fixed = load_known()
        mine = [f for f in findings if f['property'] == self.pid]
        viol = [o for o in self.obligations if o['status'] == 'violated']
        known_hits, new_viol = [], []
        for v in viol:
            full = '%s %s' % (v['rule'], v['key'])
            hit = next((f for f in mine if f['key'] == full), None)
            if hit:
                known_hits.append((v, hit))
            else:
                new_viol.append(v)
        os.makedirs(os.path.join(VERIF, 'evidence', 'replay'), exist_ok=True)
        out_lines = []
        seen_known = set()
        for v, hit in known_hits:
            if hit['key'] in seen_known:
                continue
            seen_known.add(hit['key'])
            out_lines.append('KNOWN-FINDING: property=%s %s -- %s' % (self.pid, hit['key'], hit['what']))
        replay_paths = []
        if True:
            for i, v in enumerate(new_viol):
                rp = os.path.join(VERIF, 'evidence', 'replay', '%s%s-%d.json' % ('scratch-' if os.environ.get('VERIF_NO_EVIDENCE') else '', self.pid, i))
                with open(rp, 'w') as fh:
                    json.dump({'property': self.pid, 'rule': v['rule'], 'instance': v['key'], 'location': v['loc'],
                               'detail': v['detail'], 'data': v.get('data')}, fh, indent=1, default=str)
                replay_paths.append(rp)
                out_lines.append('VIOLATION property=%s replay=%s' % (self.pid, rp))
                out_lines.append('  %s %s at %s: %s' % (v['rule'], v['key'], v['loc'], v['detail']))
        total = len(self.obligations)
        discharged = len([o for o in self.obligations if o['status'] == 'ok'])
        distinct = len({(o['rule'], o['key']) for o in self.obligations if o['status'] in ('ok', 'violated')})
        rules = sorted({o['rule'] for o in self.obligations})
        samples = []
        per_rule = {}
        for o in self.obligations:
            per_rule.setdefault(o['rule'], []).append(o)
        for r in rules:
            for o in per_rule[r][:3]:
                samples.append({'rule': o['rule'], 'instance': o['key'], 'at': o['loc'], 'status': o['status'],
                                'detail': o['detail'][:400]})
        ev = {
            'property_id': self.pid,
            'tier': self.tier,
            'seed': int(seed),
            'level': 'other',
            'coverage': {
                'explanation': self.explanation,
                'rule': self.rule_text,
                'obligations': total,
                'discharged': discharged,
                'evaluations': total,
                'distinct_nontrivial': distinct,
                'samples': samples,
                'rules_applied': {r: len(per_rule[r]) for r in rules},
                'functions_analysed': sorted(self.analysed['functions']),
                'translation_units': sorted(t for t in self.analysed['tus'] if t),
                'paths_enumerated': self.analysed['paths'],
                'checker_cmd': './check %s --tier %s' % (self.pid, self.tier),
                'trusted_base': self.trusted,
                'known_findings_matched': [h['key'] for _, h in known_hits],
                'analysis_broken': self.broken,
                'notes': self.notes,
                'exhaustive': False,
            },
            'assumptions': self.assumptions,
            'wall_s': round(time.time() - self.t0, 3),
            'violations': len(new_viol),
        }
        ev['coverage'].update(self.extra)
        if not os.environ.get('VERIF_NO_EVIDENCE'):
            with open(os.path.join(VERIF, 'evidence', '%s.json' % self.pid), 'w') as fh:
                json.dump(ev, fh, indent=1, default=str)
        if not quiet:
            for ln in out_lines:
                print(ln)
        if self.broken and not quiet:
            for b in self.broken:
                print('ANALYSIS-BROKEN property=%s %s' % (self.pid, b))
        if new_viol:
            return 1          # a refuted obligation stands regardless of what else could not be analysed
        if self.broken:
            return 2
        if not quiet:
            print('OK property=%s obligations=%d discharged=%d rules=%s known=%d wall=%.1fs'
                  % (self.pid, total, discharged, ','.join(rules), len(seen_known), time.time() - self.t0))
        return 0
