"""Path-sensitive dataflow over the CFG facts (DESIGN.md 2.2).

For one function it enumerates the acyclic paths of the clang CFG (each loop body is entered
at most once more after its variables have been widened to unknowns), keeping

  * a store of reaching definitions as expression trees (value numbering, no concrete run),
  * the list of *events* (atomic operations with object path / operands / memory orders,
    fences, calls with resolved callees, constructions, member initialisers, implicit
    destructors, new/delete, assignments to non-local locations),
  * the path condition (branch conditions as expression trees with the outcome taken),
  * the returned value.

A call whose callee is a *spin function* (a function that calls its first argument in a loop
and returns iff the result is true; verified structurally on the callee's own CFG) with a
lambda argument is summarised by inlining one true-exit of the lambda (DESIGN.md 'spin
summaries').  compare_exchange forks the path into the success and the failure outcome.

Nothing is executed: values are symbols and expression trees.
"""
import re
from facts import AnalysisBroken

M64 = (1 << 64) - 1


def C(v, bits=64):
    return ('c', v & ((1 << bits) - 1), bits)


def S(name, bits=64):
    return ('s', name, bits)


TRUE = C(1, 1)
FALSE = C(0, 1)


def is_const(v):
    return isinstance(v, tuple) and v and v[0] == 'c'


def bits_of(v):
    if not isinstance(v, tuple):
        return 64
    k = v[0]
    if k in ('c', 's'):
        return v[2]
    if k == 'op':
        return v[4]
    if k in ('trunc', 'ext', 'neg', 'bnot'):
        return v[2]
    if k in ('not', 'ne0'):
        return 1
    return 64


CMP = {'==', '!=', '<', '>', '<=', '>='}


def mk_op(op, a, b, bits):
    # (x & M1) & M2  ->  x & (M1 & M2)
    if op == '&':
        for u, m in ((a, b), (b, a)):
            if is_const(m) and isinstance(u, tuple) and u and u[0] == 'op' and len(u) == 5 and u[1] == '&' and u[4] == bits:
                for x, m1 in ((u[2], u[3]), (u[3], u[2])):
                    if is_const(m1) and not is_const(x):
                        return mk_op('&', x, C(m1[1] & m[1], bits), bits)
    # ((p ^ q) & M) ==/!= 0  ->  (p & M) ==/!= (q & M) ;  (p ^ q) ==/!= 0  ->  p ==/!= q   (comparison of two fields spelled with xor)
    if op in ('==', '!='):
        for x, z in ((a, b), (b, a)):
            if is_const(z) and z[1] == 0 and isinstance(x, tuple) and x and x[0] == 'op' and len(x) == 5:
                if x[1] == '&':
                    for u, m in ((x[2], x[3]), (x[3], x[2])):
                        if is_const(m) and isinstance(u, tuple) and u and u[0] == 'op' and len(u) == 5 and u[1] == '^' and not is_const(u[2]) and not is_const(u[3]):
                            return mk_op(op, mk_op('&', u[2], m, x[4]), mk_op('&', u[3], m, x[4]), 1)
                if x[1] == '^' and not is_const(x[2]) and not is_const(x[3]):
                    return mk_op(op, x[2], x[3], 1)
    if is_const(a) and is_const(b):
        x, y = a[1], b[1]
        m = (1 << bits) - 1
        try:
            r = {'+': lambda: x + y, '-': lambda: x - y, '|': lambda: x | y, '&': lambda: x & y,
                 '^': lambda: x ^ y, '<<': lambda: x << y, '>>': lambda: x >> y, '*': lambda: x * y,
                 '==': lambda: int(x == y), '!=': lambda: int(x != y), '<': lambda: int(x < y),
                 '>': lambda: int(x > y), '<=': lambda: int(x <= y), '>=': lambda: int(x >= y),
                 '/': lambda: x // y, '%': lambda: x % y}[op]()
            return C(r & m, 1 if op in CMP else bits)
        except (KeyError, ZeroDivisionError):
            pass
    if op in CMP:
        bits = 1
        if a == b and isinstance(a, tuple) and a and a[0] != 'f':
            # values are side-effect-free expression trees: x == x, x <= x, x >= x hold, the rest do not
            return C(1 if op in ('==', '<=', '>=') else 0, 1)
        if op in ('==', '!='):
            # x == x + c with a constant c that is not a multiple of 2^bits never holds (begin != begin + N)
            for u, v in ((a, b), (b, a)):
                if isinstance(v, tuple) and v and v[0] == 'op' and v[1] == '+' and v[2] == u and is_const(v[3]) and v[3][1] % (1 << 64) != 0 \
                        and isinstance(u, tuple) and u and u[0] != 'f':
                    return C(0 if op == '==' else 1, 1)
    return ('op', op, a, b, bits)


def mk_ne0(v):
    if is_const(v):
        return TRUE if v[1] else FALSE
    if bits_of(v) == 1 and v[0] in ('op', 'not', 'ne0', 'c'):
        return v
    if v[0] == 's' and v[2] == 1:
        return v
    return ('ne0', v)


def mk_not(v):
    v = mk_ne0(v)
    if is_const(v):
        return FALSE if v[1] else TRUE
    if v[0] == 'not':
        return v[1]
    if v[0] == 'op' and v[1] in ('==', '!='):
        return ('op', '!=' if v[1] == '==' else '==', v[2], v[3], 1)
    return ('not', v)


def show(v, depth=0):
    """compact rendering of a value / path for reports"""
    if not isinstance(v, tuple) or not v:
        return str(v)
    k = v[0]
    if k == 'c':
        return hex(v[1]) if v[1] > 9 else str(v[1])
    if k == 's':
        return v[1]
    if k == 'op':
        return '(%s %s %s)' % (show(v[2]), v[1], show(v[3]))
    if k == 'ne0':
        return 'bool(%s)' % show(v[1])
    if k == 'not':
        return '!%s' % show(v[1])
    if k == 'trunc':
        return 'u%d(%s)' % (v[2], show(v[1]))
    if k == 'ext':
        return show(v[1])
    if k == 'neg':
        return '-%s' % show(v[1])
    if k == 'bnot':
        return '~%s' % show(v[1])
    if k == 'addr':
        return '&' + show(v[1])
    if k == 'ptrint':
        return show(v[1])
    if k == 'var':
        return v[2]
    if k == 'field':
        b = v[1]
        if b == S('this'):
            return 'this->' + v[2]
        if isinstance(b, tuple) and b[0] == 'addr':
            return show(b[1]) + '.' + v[2]
        return show(b) + '->' + v[2]
    if k == 'deref':
        return '*' + show(v[1])
    if k == 'index':
        return '%s[%s]' % (show(v[1]), show(v[2]))
    if k == 'global':
        return v[1]
    if k == 'app':
        return '%s(%s)' % (v[1], ', '.join(show(a) for a in v[2]))
    if k == 'obj':
        return '%s{%s}' % (v[1].split('::')[-1], ', '.join(show(a) for a in v[3]))
    if k == 'lambda':
        return '<lambda>'
    if k == 'f':
        return repr(v[1])
    if k == 'lv':
        return show(v[1])
    return str(v)


def cond_truth(conds, v):
    """truth value of `v` (pointer / integer / bool used as a condition) that the path conditions
    establish syntactically: handles v, bool(v), !v, v != 0, v == 0, 0 != v, 0 == v and negations"""
    if isinstance(v, tuple) and v and v[0] == 'ne0':
        v = v[1]
    for item in conds:
        c, o = item[0], item[1]
        neg = False
        while isinstance(c, tuple) and c and c[0] == 'not':
            c = c[1]
            neg = not neg
        if isinstance(c, tuple) and c and c[0] == 'ne0':
            c = c[1]
        if c == v:
            return o != neg
        if isinstance(c, tuple) and c and c[0] == 'op' and c[1] in ('==', '!='):
            a, b = c[2], c[3]
            if isinstance(a, tuple) and a and a[0] == 'ne0':
                a = a[1]
            if isinstance(b, tuple) and b and b[0] == 'ne0':
                b = b[1]
            other = None
            if a == v and is_const(b) and b[1] == 0:
                other = True
            elif b == v and is_const(a) and a[1] == 0:
                other = True
            if other:
                r = o if c[1] == '!=' else (not o)
                return r != neg
    return None


def subst_val(v, old, new):
    """replace every occurrence of the value `old` inside the expression tree v by `new`, re-folding constants"""
    if v == old:
        return new
    if not isinstance(v, tuple) or not v:
        return v
    if v[0] == 'op' and len(v) == 5:
        return mk_op(v[1], subst_val(v[2], old, new), subst_val(v[3], old, new), v[4])
    if v[0] == 'not':
        return mk_not(subst_val(v[1], old, new))
    if v[0] == 'ne0':
        return mk_ne0(subst_val(v[1], old, new))
    if v[0] in ('s', 'c', 'f', 'str'):
        return v
    return tuple(subst_val(x, old, new) if isinstance(x, tuple) else x for x in v)


def symbols(v, out=None):
    if out is None:
        out = set()
    if isinstance(v, tuple):
        if v and v[0] == 's':
            out.add(v)
        else:
            for x in v:
                if isinstance(x, tuple):
                    symbols(x, out)
    return out


def callee_targs(key):
    """template arguments of a callee key such as std::bit_cast<unsigned long, T *>(...)"""
    i = key.find('<')
    if i < 0:
        return None
    depth, j, args, cur = 0, i, [], ''
    for ch in key[i:]:
        if ch == '<':
            depth += 1
            if depth == 1:
                continue
        elif ch == '>':
            depth -= 1
            if depth == 0:
                args.append(cur.strip())
                break
        elif ch == ',' and depth == 1:
            args.append(cur.strip())
            cur = ''
            continue
        cur += ch
    return args


ATOMIC_RECORDS = ('std::atomic<', 'std::__atomic_base<', 'std::atomic_flag', 'std::__atomic_flag_base')


def is_atomic_record(rec):
    return bool(rec) and rec.startswith(ATOMIC_RECORDS)


ORDER_NAMES = {0: 'relaxed', 1: 'consume', 2: 'acquire', 3: 'release', 4: 'acq_rel', 5: 'seq_cst'}


class Path:
    def __init__(self):
        self.events = []
        self.conds = []      # (value, outcome(bool), line)
        self.ret = None
        self.ret_line = None
        self.store = {}
        self.end = None      # 'return' | 'exit' | 'throw' | 'cut' | 'noreturn'
        self.choices = ()
        self.blocks = []
        self.word_syms = set()

    def cond_map(self):
        return {c[0]: c[1] for c in self.conds}


class Cut(Exception):
    pass


class Infeasible(Exception):
    pass


class Sim:
    """One replay of a function along the choice prefix."""

    def __init__(self, engine, fn, prefix, init_store=None, this_sym=None):
        self.eng = engine
        self.facts = engine.facts
        self.fn = fn
        self.prefix = prefix
        self.pos = 0
        self.trace = []
        self.pending = []
        self.path = Path()
        self.store = dict(init_store or {})
        self.vals = {}
        self.decided = {}
        self.fresh = 0
        self.writes = []           # log of written paths (for loop widening)
        self.spin_fail = []        # events of lambda iterations that do not exit the spin
        self.depth = 0
        self.word_results = set()  # symbols produced by atomic reads
        self.word_paths = set()    # locations that have held such a symbol
        self.last_widened = {}     # (loop header, location) -> symbol introduced by the last widening

    # ------------------------------------------------------------ choices
    def choose(self, n, tag):
        if self.pos < len(self.prefix):
            c = self.prefix[self.pos]
        else:
            c = 0
            self.pending.append((self.pos, n))
        self.trace.append(c)
        self.pos += 1
        return c

    def new_sym(self, base, bits=64):
        self.fresh += 1
        return S('%s#%d' % (base, self.fresh), bits)

    # ------------------------------------------------------------ store
    def pathname(self, p):
        return show(p)

    def load(self, p, bits=64):
        if p[0] == 'global' and p not in self.store and getattr(self, 'cur_fn', None) is not None:
            # a namespace-scope / static constant read as an lvalue (e.g. an operand of a conditional lvalue)
            cv = self.eng.tu_consts(self.cur_fn.get('tu')).get(p[1])
            if cv is not None:
                return C(cv, bits or 64)
        if p[0] in ('field', 'global', 'deref') and ('rd', p) not in self.store:
            self.store[('rd', p)] = True
            if getattr(self, 'cur_fn', None) is not None:
                self.event({'kind': 'read', 'path': p, 'line': None})
        if p in self.store:
            return self.store[p]
        if p[0] == 'var' and len(p) > 3 and p[3] == 'const_global':
            pass
        v = S(self.pathname(p), bits)
        return v

    def write(self, p, v, line=None, record_event=True, how='='):
        self.note_word(p, v)
        self.store[p] = v
        self.writes.append(p)
        if record_event and p[0] != 'var':
            self.event({'kind': 'assign', 'path': p, 'value': v, 'line': line, 'how': how})
        elif record_event:
            self.event({'kind': 'assign_local', 'path': p, 'value': v, 'line': line, 'how': how})

    def note_word(self, p, v):
        if isinstance(v, tuple) and v and v[0] == 's' and v in self.word_results:
            self.word_paths.add(p)

    def event(self, e):
        if e.get('kind') == 'atomic':
            for k in ('result', 'observed'):
                if e.get(k) is not None:
                    self.word_results.add(e[k])
        e.setdefault('fn', self.cur_fn['key'])
        e['seq'] = len(self.path.events)
        e['depth'] = self.depth
        self.path.events.append(e)
        return e

    # ------------------------------------------------------------ lvalues / rvalues
    def rv(self, x, bits=None):
        if isinstance(x, tuple) and x and x[0] == 'lv':
            return self.load(x[1], x[2] if len(x) > 2 and x[2] else (bits or 64))
        return x

    def lv_path(self, x):
        if isinstance(x, tuple) and x and x[0] == 'lv':
            return x[1]
        # an rvalue used where an object is needed: pointer -> deref
        return self.deref(x)

    def deref(self, ptr):
        if isinstance(ptr, tuple) and ptr and ptr[0] == 'addr':
            return ptr[1]
        return ('deref', ptr)

    def addr_of(self, path):
        if path[0] == 'deref':
            return path[1]
        return ('addr', path)

    # ------------------------------------------------------------ expression evaluation
    def ev(self, n):
        if n is None:
            return None
        k = n.get('k')
        if k == 'ref':
            i = n['id']
            if 'cv' in n:
                return C(int(n['cv']), 64)
            if i in self.vals:
                return self.vals[i]
            e = self.cur_elems.get(i)
            if e is None:
                raise AnalysisBroken('%s: reference to unknown CFG element %d' % (self.cur_fn['key'], i))
            v = self.ev(e)
            self.vals[i] = v
            return v
        m = getattr(self, 'ev_' + k, None)
        if m is None:
            raise AnalysisBroken('%s: unsupported node kind %s' % (self.cur_fn['key'], k))
        return m(n)

    def ev_const(self, n):
        return C(int(n['v']), n.get('bits', 64) or 64)

    def ev_fconst(self, n):
        return ('f', n['v'])

    def ev_str(self, n):
        return ('str', n['v'])

    def ev_this(self, n):
        return self.this_val

    def ev_zeroinit(self, n):
        return C(0)

    def ev_definit(self, n):
        return self.ev(n['e'])

    def ev_var(self, n):
        sc = n.get('scope')
        bits = (n.get('vt') or {}).get('bits')
        if sc == 'func':
            return ('fnref', n['q'])
        if sc in ('param', 'local', 'static_local', 'tls_local'):
            p = ('var', n['did'], n['name'])
            if self.cur_fn is not None and self.cur_fn.get('kind') == 'lambda':
                snap = self.store.get(('closure', self.cur_fn['key']))
                if snap and n['did'] in snap:
                    return snap[n['did']]          # the copy made when the closure was created, not the variable's current value
        else:
            p = ('global', n.get('q', n['name']))
        if n.get('isref'):
            a = self.store.get(p)
            if a is None:
                a = S('&' + n['name'])
            return ('lv', self.deref(a), bits)
        return ('lv', p, bits)

    def ev_member(self, n):
        if n.get('static_member'):
            return ('lv', ('global', n['q']), None)
        b = self.ev(n['base'])
        if n['arrow']:
            ptr = self.rv(b)
        else:
            ptr = self.addr_of(self.lv_path(b))
        bits = (n.get('ftype') or {}).get('bits')
        return ('lv', ('field', ptr, n['name']), bits)

    def ev_index(self, n):
        b = self.ev(n['base'])
        i = self.rv(self.ev(n['idx']))
        if isinstance(b, tuple) and b and b[0] == 'lv':
            base = b[1]
        else:
            base = self.deref(b)
        return ('lv', ('index', base, i), None)

    def ev_un(self, n):
        op = n['op']
        bits = (n.get('rt') or {}).get('bits', 64)
        e = self.ev(n['e'])
        if op == '&':
            return self.addr_of(self.lv_path(e))
        if op == '*':
            return ('lv', self.deref(self.rv(e)), (n.get('rt') or {}).get('bits'))
        if op == '!':
            return mk_not(self.rv(e))
        if op == '~':
            v = self.rv(e)
            return C(~v[1], bits) if is_const(v) else ('bnot', v, bits)
        if op == '-':
            v = self.rv(e)
            return C(-v[1], bits) if is_const(v) else ('neg', v, bits)
        if op == '+':
            return self.rv(e)
        if op in ('__extension__', '__real', '__imag'):
            return e
        if op in ('++', '--', 'post++', 'post--'):
            p = self.lv_path(e)
            old = self.rv(e)
            new = mk_op('+' if '++' in op else '-', old, C(1, bits), bits)
            self.write(p, new, n.get('line'), how='++' if '++' in op else '--')
            return old if op.startswith('post') else ('lv', p, bits)
        raise AnalysisBroken('%s: unary operator %s' % (self.cur_fn['key'], op))

    def ev_bin(self, n):
        op = n['op']
        bits = (n.get('rt') or {}).get('bits', 64)
        if op in ('&&', '||'):
            return self.ev_logical(n)
        if op == ',':
            self.rv(self.ev(n['l']))
            return self.ev(n['r'])
        if op == '=':
            r = self.rv(self.ev(n['r']))
            l = self.ev(n['l'])
            p = self.lv_path(l)
            self.write(p, r, n.get('line'))
            return l
        if op.endswith('=') and op not in ('==', '!=', '<=', '>='):
            l = self.ev(n['l'])
            p = self.lv_path(l)
            r = self.rv(self.ev(n['r']))
            new = mk_op(op[:-1], self.rv(l), r, bits)
            self.write(p, new, n.get('line'))
            return l
        a = self.rv(self.ev(n['l']))
        b = self.rv(self.ev(n['r']))
        return mk_op(op, a, b, bits)

    def ev_logical(self, n):
        # short-circuit operators are split into blocks by clang's CFG: the outcome of the
        # left operand was decided at its terminator
        op = n['op']
        lid = n['l'].get('id')
        lv = None
        if lid in self.decided:
            lv = self.decided[lid]
        else:
            x = mk_ne0(self.rv(self.ev(n['l'])))
            if is_const(x):
                lv = bool(x[1])
        if lv is None:
            a = mk_ne0(self.rv(self.ev(n['l'])))
            b = mk_ne0(self.rv(self.ev(n['r'])))
            return ('op', op, a, b, 1)
        if op == '&&':
            if not lv:
                return FALSE
            return mk_ne0(self.rv(self.ev(n['r'])))
        if lv:
            return TRUE
        return mk_ne0(self.rv(self.ev(n['r'])))

    def ev_cond(self, n):
        cid = n['c'].get('id')
        if cid in self.decided:
            return self.ev(n['t'] if self.decided[cid] else n['f'])
        c = mk_ne0(self.rv(self.ev(n['c'])))
        if is_const(c):
            return self.ev(n['t'] if c[1] else n['f'])
        return ('ite', c, self.rv(self.ev(n['t'])), self.rv(self.ev(n['f'])))

    def ev_cast(self, n):
        ck = n['ck']
        e = self.ev(n['e'])
        if ck in ('IntegralToBoolean', 'PointerToBoolean'):
            return mk_ne0(self.rv(e))
        if ck == 'NullToPointer':
            return C(0)
        if ck in ('IntegralCast', 'BooleanToSignedIntegral'):
            v = self.rv(e)
            tb = n['to'].get('bits', 64)
            fb = n['from'].get('bits', bits_of(v))
            if is_const(v):
                if n['from'].get('signed') and fb < tb and (v[1] >> (fb - 1)) & 1:
                    return C(v[1] - (1 << fb), tb)
                return C(v[1], tb)
            fs, ts = bool(n['from'].get('signed')), bool(n['to'].get('signed'))
            if ck == 'IntegralCast' and fb > 1 and (tb < fb or (tb == fb and fs != ts) or (fs and not ts)):
                # a conversion that does not preserve the order of all values of the source type (narrowing, change of
                # signedness): recorded so that rules about comparisons can ask in which type a value was compared
                self.event({'kind': 'intconv', 'value': v, 'from': (fb, fs), 'to': (tb, ts), 'line': n.get('line'), 'implicit': not n.get('explicit')})
            if tb < fb:
                return ('trunc', v, tb)
            if tb > fb:
                return ('ext', v, tb, bool(n['from'].get('signed')))
            return v
        if ck in ('IntegralToFloating', 'FloatingCast', 'FloatingToIntegral'):
            return ('app', ck, (self.rv(e),))
        if ck in ('PointerToIntegral', 'IntegralToPointer'):
            # reinterpret_cast between a pointer and an integer: the same marker as std::bit_cast (the value is an address)
            if n.get('const_cast') or n.get('cstyle') or n.get('reinterpret'):
                self.event({'kind': 'cast', 'line': n.get('line'), 'ck': ck, 'const_cast': bool(n.get('const_cast')),
                            'cstyle': bool(n.get('cstyle')), 'to': n['to'].get('t'), 'from': n['from'].get('t')})
            v = self.rv(e)
            if ck == 'PointerToIntegral':
                return v if (isinstance(v, tuple) and v and v[0] == 'ptrint') or is_const(v) else ('ptrint', v)
            return v[1] if isinstance(v, tuple) and v and v[0] == 'ptrint' else v
        if ck in ('BitCast', 'NoOp', 'LValueBitCast', 'ToVoid', 'Dependent', 'IntegralToPointer',
                  'PointerToIntegral', 'DerivedToBase', 'UncheckedDerivedToBase', 'BaseToDerived'):
            if n.get('const_cast') or n.get('cstyle') or n.get('reinterpret'):
                self.event({'kind': 'cast', 'line': n.get('line'), 'ck': ck, 'const_cast': bool(n.get('const_cast')),
                            'cstyle': bool(n.get('cstyle')), 'to': n['to'].get('t'), 'from': n['from'].get('t')})
            return e
        if ck in ('LValueToRValue',):
            return self.rv(e)
        if ck in ('ConstructorConversion', 'UserDefinedConversion', 'ArrayToPointerDecay', 'FunctionToPointerDecay'):
            return e
        return ('app', 'cast:' + ck, (self.rv(e),))

    def ev_initlist(self, n):
        items = tuple(self.rv(self.ev(i)) for i in n['items'])
        if n.get('scalar'):
            return items[0] if items else C(0)
        return ('initlist', items, n.get('type', ''))

    def ev_lambda(self, n):
        # by-copy captures: the closure keeps the values the variables have now
        snap = {}
        for bc in n.get('by_copy', []):
            pth = ('var', bc['did'], bc['name'])
            if pth in self.store:
                snap[bc['did']] = self.store[pth]
        if n.get('by_copy'):
            self.store[('closure', n['fn'])] = snap
            self.event({'kind': 'lambda_create', 'fn': n['fn'], 'by_copy': [(bc['did'], bc['name']) for bc in n['by_copy']], 'line': n.get('line')})
        for ic in n.get('init_captures', []):
            x = self.ev(ic['init'])
            pth = ('var', ic['did'], ic['name'])
            self.store[pth] = self.addr_of(self.lv_path(x)) if ic.get('isref') else self.rv(x)
        return ('lambda', n['fn'])

    def ev_throw(self, n):
        self.event({'kind': 'throw', 'line': n.get('line'), 'text': n.get('text')})
        self.returned = True
        self.ret = ('throw',)
        self.ret_line = n.get('line')
        return None

    def ev_new(self, n):
        init = self.rv(self.ev(n['init'])) if n.get('init') else None
        v = self.new_sym('new:' + n['alloc_type'].split('::')[-1])
        self.event({'kind': 'new', 'type': n['alloc_type'], 'init': init, 'result': v, 'line': n.get('line')})
        return v

    def ev_delete(self, n):
        v = self.rv(self.ev(n['e']))
        self.event({'kind': 'delete', 'value': v, 'array': n.get('array'), 'line': n.get('line')})
        return None

    def ev_other(self, n):
        for c in n.get('children', []):
            self.ev(c)
        return self.new_sym('other:' + n.get('cls', '?'))

    def ev_decl(self, n):
        for v in n['vars']:
            p = ('var', v['did'], v['name'])
            dev = self.event({'kind': 'decl', 'name': v['name'], 'storage': v['storage'], 'type': v['type'], 'did': v['did'],
                              'line': n.get('line'), 'has_init': 'init' in v, 'init_node': v.get('init')})
            if 'init' in v:
                x = self.ev(v['init'])
                if v.get('ref'):
                    val = self.addr_of(self.lv_path(x))
                else:
                    val = self.rv(x)
                dev['value'] = val
                self.note_word(p, val)
                self.store[p] = val
                self.writes.append(p)
                if not v.get('ref'):
                    self.materialise_functor(p, val)
                    self.materialise_own(p, val, n)
        return None

    def materialise_own(self, p, val, n):
        """a local object of the class whose member function is analysed (`Guard tmp{std::move(rhs)}` of the move-and-swap
        idiom): its constructor runs on the variable's storage, and its destructor when the variable goes out of scope"""
        if not (isinstance(val, tuple) and val and val[0] == 'obj') or self.depth > 2:
            return
        rec = self.fn.get('record')     # the function under analysis (not an inlined callee)
        if not rec or ('functor_at', p) in self.store:
            return
        short = rec.split('::')[-1]
        if not (val[1] == rec or str(val[1]).endswith('::' + short) or val[1] == short):
            return
        ctor = self.facts.functions.get(val[2])
        if ctor is None or not ctor.get('blocks') or ctor.get('record') != rec or len(ctor['params']) != len(val[3]):
            return
        n0 = len(self.path.events)
        self.inline_call(ctor, list(val[3]), n, this_ptr=('addr', p))
        self.mark_local(n0, p)
        self.store[('localobj', p)] = rec

    def mark_local(self, n0, p):
        # member initialisations of a local object are not initialisations of *this
        for ev_ in self.path.events[n0:]:
            ev_['on_local'] = p[2]
            if ev_['kind'] == 'init':
                ev_['kind'] = 'init_local'

    def mutated_local(self, opath):
        """a non-const member function was called on a local object whose value is opaque (an iterator, a container ...):
        expressions over its old value must not be taken to describe it any longer"""
        if isinstance(opath, tuple) and opath and opath[0] == 'var':
            v = self.store.get(opath)
            if isinstance(v, tuple) and v and v[0] == 's':
                self.store[opath] = self.new_sym(v[1].split('#')[0] + "'", v[2])
                self.writes.append(opath)

    def optional_value(self, opath):
        """(engaged?, contained value) of a std::optional object whose construction is known on this path, else None"""
        v = self.store.get(opath)
        if v is None and opath[0] == 'deref':
            v = opath[1]
        if not (isinstance(v, tuple) and v and v[0] == 'obj' and str(v[1]).startswith('std::optional<')):
            return None
        ctor, args = str(v[2]), v[3]
        if len(args) == 0 or 'nullopt_t' in ctor:
            return (False, None)
        if len(args) == 1:
            a = args[0]
            if isinstance(a, tuple) and a and a[0] == 'obj' and str(a[1]).startswith('std::optional<'):
                return self.optional_value_of(a)
            return (True, self.rv(a))
        return None

    def optional_value_of(self, v):
        ctor, args = str(v[2]), v[3]
        if len(args) == 0 or 'nullopt_t' in ctor:
            return (False, None)
        if len(args) == 1 and not (isinstance(args[0], tuple) and args[0] and args[0][0] == 'obj'):
            return (True, self.rv(args[0]))
        return None

    def functor_record(self, rec):
        """(record name, operator()) if rec is a repository class with exactly one operator()"""
        if not rec:
            return None
        recname = next((r for r in self.facts.records if r == rec or r.endswith('::' + rec)), None)
        if recname is None:
            return None
        ops = [f for f in self.facts.functions.values() if f.get('record') == recname and f['short'] == 'operator()']
        return (recname, ops[0]) if len(ops) == 1 else None

    def materialise_functor(self, p, val):
        """a local object of a repository functor class: run its constructor on the variable's storage so that later
        member calls (operator() through std::ref, getters) see and update the same members"""
        if not (isinstance(val, tuple) and val and val[0] in ('obj', 'initlist')):
            return
        rec = val[1] if val[0] == 'obj' else (val[2] if len(val) > 2 else None)
        fr = self.functor_record(rec)
        if fr is None:
            return
        recname, op = fr
        ptr = ('addr', p)
        if val[0] == 'obj':
            ctor = self.facts.functions.get(val[2])
            if ctor is not None and len(ctor['params']) == len(val[3]) and ctor.get('blocks'):
                self._functor_via_ctor(op, ctor, val[3], ptr)
                self.store[('functor_at', p)] = op['key']
                if recname == self.fn.get('record'):
                    self.store[('localobj', p)] = recname
                return
            if val[3]:
                return
        items = val[3] if val[0] == 'obj' else val[1]
        for f, item in zip(self.facts.records[recname]['fields'], items):
            self.store[('field', ptr, f['name'])] = item
        self.store[('functor_at', p)] = op['key']

    def ev_return(self, n):
        e = n.get('e')
        if e is not None and e.get('k') == 'ref' and e['id'] in self.cur_elems:
            e = self.cur_elems[e['id']]
        if e is not None and e.get('k') == 'construct' and e.get('copy_or_move') and len(e.get('args') or []) == 1:
            a = e['args'][0]
            for _ in range(6):
                if a.get('k') == 'cast':
                    a = a['e']
                elif a.get('k') == 'ref' and a['id'] in self.cur_elems:
                    a = self.cur_elems[a['id']]
                else:
                    break
            if a.get('k') == 'var' and a.get('scope') == 'local' and not a.get('isref'):
                # `return local;` (copy elision / implicit move): the function's result is the local object itself
                src = self.rv(self.ev(a))
                if isinstance(src, tuple) and src and src[0] == 'obj':
                    self.ret, self.ret_line, self.returned = src, n.get('line'), True
                    return None
        v = self.rv(self.ev(n['e'])) if n.get('e') is not None else None
        self.ret = v
        self.ret_line = n.get('line')
        self.returned = True
        return None

    def ev_construct(self, n):
        args = tuple(self.rv(self.ev(a)) if not n.get('copy_or_move') else self.ev(a) for a in n['args'])
        if n.get('copy_or_move') and len(args) == 1:
            a = args[0]
            src = self.rv(a)
            if isinstance(src, tuple) and src and src[0] in ('lambda', 'fnref'):
                return src
            if isinstance(src, tuple) and src and src[0] == 'obj' and (n.get('elidable') or (src[1] == n['record'] and not n.get('in_root'))):
                return src
            self.event({'kind': 'construct', 'record': n['record'], 'ctor': n['ctor'], 'args': (a,),
                        'copy_or_move': True, 'move': n.get('move'), 'line': n.get('line'), 'in_root': n.get('in_root')})
            return ('obj', n['record'], n['ctor'], (a,))
        v = ('obj', n['record'], n['ctor'], args)
        self.event({'kind': 'construct', 'record': n['record'], 'ctor': n['ctor'], 'args': args,
                    'line': n.get('line'), 'in_root': n.get('in_root'), 'defaulted': n.get('defaulted')})
        return v

    # ---- calls
    def ev_call(self, n):
        name = n.get('name', '')
        args_nodes = n['args']
        if name == 'std::atomic_thread_fence':
            o = self.rv(self.ev(args_nodes[0]))
            self.event({'kind': 'fence', 'order': ORDER_NAMES.get(o[1], '?') if is_const(o) else '?', 'line': n.get('line')})
            return None
        if name == 'std::exchange' and len(args_nodes) == 2:
            # old = obj; obj = new_value; return old
            x = self.ev(args_nodes[0])
            old = self.rv(x)
            nv = self.rv(self.ev(args_nodes[1]))
            self.write(self.lv_path(x), nv, n.get('line'))
            return old
        if name == 'std::swap' and len(args_nodes) == 2:
            xa, xb = self.ev(args_nodes[0]), self.ev(args_nodes[1])
            pa, pb = self.lv_path(xa), self.lv_path(xb)
            va, vb = self.rv(xa), self.rv(xb)
            self.write(pa, vb, n.get('line'))
            self.write(pb, va, n.get('line'))
            return None
        if name in ('std::ref', 'std::cref') and len(args_nodes) == 1:
            # a reference wrapper is the address of its referent; binding it to a reference parameter yields the referent
            return self.addr_of(self.lv_path(self.ev(args_nodes[0])))
        if name in ('std::bit_cast', 'std::move', 'std::forward', 'std::addressof', 'std::as_const'):
            x = self.ev(args_nodes[0])
            if name == 'std::bit_cast':
                v = self.rv(x)
                # std::bit_cast<To, From>: pointer -> integer keeps a marker (the value is an address)
                m = callee_targs(n.get('callee', ''))
                if m and not m[0].rstrip().endswith('*') and len(m) > 1 and m[1].rstrip().endswith('*'):
                    if isinstance(v, tuple) and v and v[0] == 'ptrint':
                        return v
                    return ('ptrint', v)
                if isinstance(v, tuple) and v and v[0] == 'ptrint' and m and m[0].rstrip().endswith('*'):
                    return v[1]
                return v
            if name == 'std::addressof':
                return self.addr_of(self.lv_path(x))
            return x
        if name in ('std::begin', 'std::cbegin', 'std::end', 'std::cend', 'std::data', 'std::size') and len(args_nodes) == 1:
            # on a built-in array: its first element / one past its last element / its extent
            a0 = args_nodes[0]
            if a0.get('k') == 'ref' and a0['id'] in self.cur_elems:
                a0 = self.cur_elems[a0['id']]
            mt = re.search(r'\[(\d+)\]$', a0.get('type') or '')
            if mt:
                base = self.rv(self.ev(args_nodes[0]))
                ext = int(mt.group(1))
                if name == 'std::size':
                    return C(ext, 64)
                return base if name in ('std::begin', 'std::cbegin', 'std::data') else mk_op('+', base, C(ext, 64), 64)
        if name == 'std::for_each' and len(args_nodes) == 3 and self.depth < 4:
            # for (; first != last; ++first) f(*first): over a built-in array of known extent the calls are made one by one when the
            # engine unrolls; otherwise one call on a general element stands for the iterations
            b = self.rv(self.ev(args_nodes[0]))
            e_ = self.rv(self.ev(args_nodes[1]))
            fv = self.rv(self.ev(args_nodes[2]))
            target, this_ptr = None, None
            if isinstance(fv, tuple) and fv and fv[0] == 'lambda':
                target = self.facts.functions.get(fv[1])
            else:
                fun = self.functor_call_op(fv)
                if fun is not None:
                    target, this_ptr = self.facts.functions.get(fun[0]), fun[1]
            ext = None
            if isinstance(e_, tuple) and e_ and e_[0] == 'op' and e_[1] == '+' and e_[2] == b and is_const(e_[3]):
                ext = e_[3][1]
            if target is not None and target.get('blocks') and len(target['params']) == 1 and ext is not None:
                if self.eng.unroll and ext <= 8:
                    for i in range(ext):
                        ptr = b if i == 0 else mk_op('+', b, C(i, 64), 64)
                        self.inline_call(target, [('lv', ('deref', ptr), None)], n, this_ptr=this_ptr)
                else:
                    ptr = self.new_sym('each~')
                    self.assume(('op', '!=', ptr, e_, 64), True, n.get('line'))
                    self.event({'kind': 'for_each', 'first': b, 'last': e_, 'element': ptr, 'line': n.get('line')})
                    self.inline_call(target, [('lv', ('deref', ptr), None)], n, this_ptr=this_ptr)
                return fv
        callee = n.get('callee', '?')
        fn = self.facts.functions.get(callee)
        if fn is not None and self.eng.is_spin_function(fn) and args_nodes:
            lam = self.rv(self.ev(args_nodes[0]))
            if isinstance(lam, tuple) and lam and lam[0] == 'lambda':
                rest = [self.rv(self.ev(a)) for a in args_nodes[1:]]
                return self.inline_spin(lam[1], rest, n)
            if isinstance(lam, tuple) and lam and lam[0] == 'fnref' and lam[1] in self.facts.functions:
                # a named function passed as the spin predicate
                rest = [self.rv(self.ev(a)) for a in args_nodes[1:]]
                return self.inline_spin(lam[1], rest, n)
            fun = self.functor_call_op(lam)
            if fun is not None:
                rest = [self.rv(self.ev(a)) for a in args_nodes[1:]]
                return self.inline_spin(fun[0], rest, n, this_ptr=fun[1])
        if fn is not None and self.eng.inline_helper(fn) and self.depth < 4 and len(args_nodes) == len(fn['params']):
            vals = [self.ev(a) for a in args_nodes]
            return self.inline_call(fn, vals, n, this_ptr=None)
        args = tuple(self.rv(self.ev(a)) for a in args_nodes)
        pure = name.startswith('std::') or name in ('pow', 'log', 'exp', 'sqrt') or n.get('builtin')
        if pure and name not in ('std::sort', 'std::unique', 'std::this_thread::sleep_for'):
            r = ('app', name or callee, args)
        else:
            r = self.new_sym('ret:' + (name.split('::')[-1] or 'call'))
        self.event({'kind': 'call', 'callee': callee, 'name': name, 'args': args, 'result': r,
                    'line': n.get('line'), 'in_root': n.get('in_root')})
        return r

    def inline_call(self, fn, vals, n, this_ptr=None):
        """analyse a helper's body in the caller's context: parameters bound to the argument values"""
        for prm, a in zip(fn['params'], vals):
            pp = ('var', prm['did'], prm['name'])
            if prm.get('isref'):
                self.store[pp] = self.addr_of(self.lv_path(a))
            else:
                self.store[pp] = self.rv(a)
        self.event({'kind': 'inline_begin', 'callee': fn['key'], 'line': n.get('line')})
        self.depth += 1
        saved_this = self.this_val
        if this_ptr is not None:
            self.this_val = this_ptr
        try:
            ret = self.run_body(fn)
        finally:
            self.this_val = saved_this
            self.depth -= 1
        self.event({'kind': 'inline_end', 'callee': fn['key'], 'line': n.get('line')})
        return ret

    def ev_mcall(self, n):
        rec = n.get('record', '')
        objx = self.ev(n['obj'])
        if n.get('obj_ptr'):
            ptr = self.rv(objx)
            opath = self.deref(ptr)
        else:
            opath = self.lv_path(objx)
            ptr = self.addr_of(opath)
        if is_atomic_record(rec):
            return self.atomic(n, opath)
        if rec.startswith('std::optional<'):
            ov = self.optional_value(opath)
            if ov is not None:
                m_ = n.get('method', '')
                if n.get('conversion') == 'bool' or m_ == 'has_value':
                    return TRUE if ov[0] else FALSE
                if m_ == 'value' and ov[0]:
                    return ov[1]
        fnm = self.facts.functions.get(n.get('callee'))
        if fnm is not None and n.get('in_root') and self.eng.inline_helper(fnm) and self.depth < 4:
            vals = [self.ev(a) for a in n['args'] if a.get('k') != 'defarg']
            if len(vals) == len(fnm['params']):
                return self.inline_call(fnm, vals, n, this_ptr=ptr)
        args = tuple(self.rv(self.ev(a)) if a.get('k') != 'defarg' else ('defarg',) for a in n['args'])
        method = n.get('method', '?')
        ver = self.store.get(('objver', opath), 0)
        if n.get('const_method') and not n.get('in_root'):
            r = ('app', method, (('lv', opath, None), ('c', ver, 8)) + args)
        elif n.get('const_method'):
            r = ('app', method, (('lv', opath, None), ('c', ver, 8)) + args)
        else:
            self.store[('objver', opath)] = ver + 1
            self.mutated_local(opath)
            r = self.new_sym('ret:' + method)
        self.event({'kind': 'call', 'callee': n.get('callee'), 'name': method, 'record': rec, 'obj': opath,
                    'objptr': ptr, 'args': args, 'result': r, 'line': n.get('line'), 'in_root': n.get('in_root'),
                    'const_method': n.get('const_method')})
        if n.get('conversion') == 'bool':
            return mk_ne0(r)
        return r

    def ev_opcall(self, n):
        op = n['op']
        rec = n.get('record', '')
        argx = [self.ev(a) for a in n['args']]
        if rec and is_atomic_record(rec) and op in ('++', '--', '+=', '-=', '&=', '|=', '^=', '=') and argx:
            # the operator forms of the atomic read-modify-write operations (sequentially consistent):
            # ++a / a++ / a += v ... are fetch_add(1) / fetch_add(v) ..., a = v is store(v)
            opath = self.lv_path(argx[0])
            line = n.get('line')
            base = {'kind': 'atomic', 'obj': opath, 'line': line, 'site': '%s@%d' % (self.cur_fn['key'], n.get('id', 0)), 'file': self.cur_fn['file'],
                    'in_spin': self.spin_depth > 0, 'orders': ['seq_cst']}
            if op == '=':
                v = self.rv(argx[1])
                base.update(op='store', value=v)
                self.event(base)
                return v
            m_ = {'++': 'fetch_add', '--': 'fetch_sub', '+=': 'fetch_add', '-=': 'fetch_sub', '&=': 'fetch_and', '|=': 'fetch_or', '^=': 'fetch_xor'}[op]
            v = C(1, 64) if op in ('++', '--') else self.rv(argx[1])
            r = self.new_sym('%s@%s' % (m_, line))
            base.update(op=m_, value=v, result=r)
            self.event(base)
            if op in ('++', '--') and len(argx) > 1:
                return r                      # postfix: the old value
            sym = {'fetch_add': '+', 'fetch_sub': '-', 'fetch_and': '&', 'fetch_or': '|', 'fetch_xor': '^'}[m_]
            return mk_op(sym, r, v, 64)
        if rec and is_atomic_record(rec):
            raise AnalysisBroken('%s:%s: operator %s on an atomic object is not a recognised idiom'
                                 % (self.cur_fn['file'], n.get('line'), op))
        callee = n.get('callee', '')
        # lambda call (inside a spin function instantiation)
        if op == '()' and callee.startswith('lambda@'):
            lam = self.facts.functions.get(callee)
            if lam is not None and lam.get('blocks') and self.depth < 5 and len(lam['params']) == len(argx) - 1 and not self.spin_depth:
                # a lambda called by (an inlined helper of) the function under analysis: its body runs in this context
                # (captures by reference are the enclosing function's own variables, `this` is the enclosing `this`)
                return self.inline_call(lam, argx[1:], n)
            args = tuple(self.rv(a) for a in argx[1:])
            r = self.new_sym('ret:lambda')
            self.event({'kind': 'lambda_call', 'callee': callee, 'args': args, 'result': r, 'line': n.get('line')})
            return r
        if not argx:
            return self.new_sym('op' + op)
        opath = self.lv_path(argx[0]) if rec else None
        if rec and rec.startswith('std::optional<') and opath is not None and op in ('*', '->'):
            ov = self.optional_value(opath)
            if ov is not None and ov[0]:
                return ov[1]
        if rec and opath is not None:
            rest = tuple(self.rv(a) for a in argx[1:])
            ver = self.store.get(('objver', opath), 0)
            if n.get('const_method'):
                r = ('app', 'operator' + op, (('lv', opath, None), ('c', ver, 8)) + rest)
                if op in ('*', '->', '[]'):
                    r = ('lv', ('deref', r), None) if op == '*' else r
            else:
                self.store[('objver', opath)] = ver + 1
                self.mutated_local(opath)
                r = self.new_sym('op' + op)
                if op == '[]':
                    r = ('lv', ('index', opath, rest[0] if rest else None), None)
            self.event({'kind': 'call', 'callee': callee, 'name': 'operator' + op, 'record': rec, 'obj': opath,
                        'args': rest, 'result': r, 'line': n.get('line'), 'in_root': n.get('in_root'),
                        'const_method': n.get('const_method'), 'raw_args': tuple(argx[1:])})
            if op == '=' and opath[0] == 'var' and len(argx) == 2:
                # a local object that still has its default-constructed value takes over the value assigned to it
                # (`Guard result{}; ... result = Guard{lock}; return result;`); nothing is dropped by the assignment
                oldv, newv = self.store.get(opath), self.rv(argx[1])
                if isinstance(oldv, tuple) and oldv and oldv[0] == 'obj' and oldv[3] == () and \
                        isinstance(newv, tuple) and newv and newv[0] == 'obj' and newv[1] == oldv[1]:
                    self.store[opath] = newv
                    self.writes.append(opath)
            if op == '=':
                return argx[0]
            return r
        args = tuple(self.rv(a) for a in argx)
        r = ('app', 'operator' + op, args)
        self.event({'kind': 'call', 'callee': callee, 'name': 'operator' + op, 'args': args, 'result': r,
                    'line': n.get('line'), 'in_root': n.get('in_root')})
        return r

    def order_of(self, node):
        if node.get('k') == 'defarg':
            return ORDER_NAMES.get(int(node['cv']), '?') if 'cv' in node else 'seq_cst'
        v = self.rv(self.ev(node))
        if is_const(v):
            return ORDER_NAMES.get(v[1], '?')
        return '?'

    def atomic(self, n, opath):
        m = n['method']
        a = n['args']
        line = n.get('line')
        site = '%s@%d' % (self.cur_fn['key'], n.get('id', 0))
        bits = 64
        base = {'kind': 'atomic', 'op': m, 'obj': opath, 'line': line, 'site': site, 'file': self.cur_fn['file'],
                'in_spin': self.spin_depth > 0}
        if m == 'load' or m.startswith('operator '):
            o = self.order_of(a[0]) if a else 'seq_cst'
            r = self.new_sym('load@%d' % line)
            base.update(op='load', orders=[o], result=r)
            self.event(base)
            return r
        if m == 'store':
            v = self.rv(self.ev(a[0]))
            o = self.order_of(a[1]) if len(a) > 1 else 'seq_cst'
            base.update(orders=[o], value=v)
            self.event(base)
            return None
        if m in ('exchange', 'fetch_add', 'fetch_sub', 'fetch_or', 'fetch_and', 'fetch_xor'):
            v = self.rv(self.ev(a[0]))
            o = self.order_of(a[1]) if len(a) > 1 else 'seq_cst'
            r = self.new_sym('%s@%d' % (m, line))
            base.update(orders=[o], value=v, result=r)
            self.event(base)
            return r
        if m in ('compare_exchange_weak', 'compare_exchange_strong'):
            ex = self.ev(a[0])
            epath = self.lv_path(ex)
            expected = self.rv(ex)
            desired = self.rv(self.ev(a[1]))
            so = self.order_of(a[2]) if len(a) > 2 else 'seq_cst'
            fo = self.order_of(a[3]) if len(a) > 3 else ('seq_cst' if len(a) <= 2 else {'acq_rel': 'acquire', 'release': 'relaxed'}.get(so, so))
            ok = self.choose(2, 'cas') == 0
            base.update(op='cas', weak=m.endswith('weak'), orders=[so, fo], expected=expected, expected_path=epath,
                        desired=desired, success=ok)
            self.event(base)
            if not ok:
                nv = self.new_sym('casfail@%d' % line)
                base['observed'] = nv
                self.word_results.add(nv)
                self.word_paths.add(epath)
                self.store[epath] = nv
                self.writes.append(epath)
                return FALSE
            return TRUE
        if m in ('wait', 'notify_one', 'notify_all'):
            vals = [self.rv(self.ev(x)) for x in a[:1]] if m == 'wait' else []
            base.update(op=m, orders=[self.order_of(a[1]) if len(a) > 1 else 'seq_cst'], value=vals[0] if vals else None)
            self.event(base)
            return None
        if m == 'test':
            # std::atomic_flag::test == load
            o = self.order_of(a[0]) if a else 'seq_cst'
            r = self.new_sym('load@%d' % line, 1)
            base.update(op='load', orders=[o], result=r, flag_op=m)
            self.event(base)
            return r
        if m == 'test_and_set':
            # std::atomic_flag::test_and_set == exchange(true)
            o = self.order_of(a[0]) if a else 'seq_cst'
            r = self.new_sym('exchange@%d' % line, 1)
            base.update(op='exchange', orders=[o], value=C(1, 1), result=r, flag_op=m)
            self.event(base)
            return r
        if m == 'clear':
            # std::atomic_flag::clear == store(false)
            o = self.order_of(a[0]) if a else 'seq_cst'
            base.update(op='store', orders=[o], value=C(0, 1), flag_op=m)
            self.event(base)
            return None
        if m in ('is_lock_free',):
            raise AnalysisBroken('%s:%s: atomic operation %s is not a recognised idiom' % (self.cur_fn['file'], line, m))
        raise AnalysisBroken('%s:%s: unknown atomic member %s' % (self.cur_fn['file'], line, m))

    # ---- spin summaries
    def functor_call_op(self, v):
        """v is an object of a repository class with operator(): (key of operator(), pointer to a fresh copy of the
        object whose members hold the construction arguments)"""
        rec, items = None, None
        if isinstance(v, tuple) and v and v[0] == 'addr' and ('functor_at', v[1]) in self.store:
            # std::ref(functor object): the call operator works on the object itself
            return self.store[('functor_at', v[1])], v
        if isinstance(v, tuple) and v and v[0] == 'initlist' and len(v) > 2:
            rec, items = v[2], v[1]
        elif isinstance(v, tuple) and v and v[0] == 'obj':
            rec, items = v[1], v[3]
        if not rec:
            return None
        recname = next((r for r in self.facts.records if r == rec or r.endswith('::' + rec)), None)
        if recname is None:
            return None
        ops = [f for f in self.facts.functions.values() if f.get('record') == recname and f['short'] == 'operator()']
        if len(ops) != 1:
            return None
        ptr = self.new_sym('functor:' + rec.split('::')[-1])
        fields = [f['name'] for f in self.facts.records[recname]['fields']]
        if v[0] == 'obj':
            fx = None
            ctor = self.facts.functions.get(v[2])
            if ctor is not None:
                # member initialisers of the constructor, parameters bound to the arguments
                return None if len(ctor['params']) != len(items) else self._functor_via_ctor(ops[0], ctor, items, ptr)
        for name, val in zip(fields, items):
            self.store[('field', ptr, name)] = val
        return ops[0]['key'], ptr

    def _functor_via_ctor(self, op, ctor, items, ptr):
        for prm, a in zip(ctor['params'], items):
            if prm.get('isref') and isinstance(a, tuple) and a and a[0] == 'lv':
                a = self.addr_of(a[1])          # a reference parameter bound to an object: its address
            self.store[('var', prm['did'], prm['name'])] = a
        saved = self.this_val
        self.this_val = ptr
        self.depth += 1
        n0 = len(self.path.events)
        try:
            self.run_body(ctor)
        finally:
            self.depth -= 1
            self.this_val = saved
        # member initialisations of that object are not initialisations of *this
        for ev_ in self.path.events[n0:]:
            if ev_['kind'] == 'init':
                ev_['kind'] = 'init_local'
                ev_['on_local'] = show(ptr)
        return op['key'], ptr

    def inline_spin(self, lam_key, args, call_node, this_ptr=None):
        lam = self.facts.functions.get(lam_key)
        if lam is None:
            raise AnalysisBroken('lambda body %s not extracted' % lam_key)
        if len(lam['params']) != len(args):
            raise AnalysisBroken('%s: lambda arity does not match the spin call' % lam_key)
        self.event({'kind': 'spin_begin', 'lambda': lam_key, 'line': call_node.get('line')})
        mark = len(self.path.events)
        for p, a in zip(lam['params'], args):
            if p.get('isref'):
                self.store[('var', p['did'], p['name'])] = self.addr_of(self.lv_path(a))
            else:
                self.store[('var', p['did'], p['name'])] = a
        self.spin_depth += 1
        self.depth += 1
        saved_this = self.this_val
        if this_ptr is not None:
            self.this_val = this_ptr
        try:
            ret = self.run_body(lam)
        finally:
            self.this_val = saved_this
            self.depth -= 1
            self.spin_depth -= 1
        t = mk_ne0(ret) if ret is not None else FALSE
        if is_const(t) and not t[1]:
            # an iteration that does not leave the spin: remember its events, abandon the path
            self.spin_fail.append([e for e in self.path.events[mark:]])
            raise Infeasible()
        if not is_const(t):
            self.assume(t, True, call_node.get('line'))
        self.event({'kind': 'spin_end', 'lambda': lam_key, 'line': call_node.get('line')})
        return None

    def assume(self, cond, outcome, line):
        cm = self.path.cond_map()
        if cond in cm:
            if cm[cond] != outcome:
                raise Infeasible()
            return
        n = mk_not(cond)
        if n in cm:
            if cm[n] == outcome:
                raise Infeasible()
            return
        self.path.conds.append((cond, outcome, line))
        if getattr(self, 'cur_fn', None) is not None:
            self.event({'kind': 'cond', 'value': cond, 'outcome': outcome, 'line': line})

    @staticmethod
    def tmpl_shape(tmpl, sym):
        return (tmpl[1], tmpl[3], 'l') if tmpl[2] == sym else (tmpl[1], tmpl[2], 'r')

    def truth_of(self, cond):
        """True / False when the condition folds to a constant or is decided by the path condition, else None"""
        if cond is None:
            return None
        if is_const(cond):
            return bool(cond[1])
        return self.known(cond)

    def cmp_templates(self):
        """(operator, constant, side of the non-constant operand) of the comparisons with a constant on the path so far"""
        out = []
        for c, _, _ in self.path.conds:
            while isinstance(c, tuple) and c and c[0] == 'not':
                c = c[1]
            if isinstance(c, tuple) and c and c[0] == 'op' and c[1] in CMP:
                if is_const(c[3]) and not is_const(c[2]):
                    t = (c[1], c[3], 'l')
                elif is_const(c[2]) and not is_const(c[3]):
                    t = (c[1], c[2], 'r')
                else:
                    continue
                if t not in out:
                    out.append(t)
        return out[:12]

    def known(self, cond):
        cm = self.path.cond_map()
        if cond in cm:
            return cm[cond]
        n = mk_not(cond)
        if n in cm:
            return not cm[n]
        return None

    # ------------------------------------------------------------ CFG walk
    def run_body(self, fn):
        """walk fn's CFG from entry; returns the returned value (rvalue) or None"""
        saved = (getattr(self, 'cur_fn', None), getattr(self, 'cur_elems', None), self.vals, self.decided,
                 getattr(self, 'returned', False), getattr(self, 'ret', None), getattr(self, 'ret_line', None))
        self.cur_fn = fn
        self.cur_elems = self.eng.elem_map(fn)
        self.vals = {}
        self.decided = {}
        self.returned = False
        self.ret = None
        self.ret_line = None
        blocks = self.eng.block_map(fn)
        headers = self.eng.loop_headers(fn)
        visits = {}
        first_visit_mark = {}
        first_vals = {}      # header -> store snapshot at the first visit
        loop_inv = {}        # header -> [(path, widened symbol, template over that symbol, outcome)] assumed at the last widening
        b = blocks[fn['entry']]
        exit_id = fn['exit']
        while True:
            bid = b['id']
            visits[bid] = visits.get(bid, 0) + 1
            if self.depth == 0:
                self.path.blocks.append(bid)
            if bid not in headers:
                pass
            elif visits[bid] == 1:
                first_visit_mark[bid] = len(self.writes)
                first_vals[bid] = dict(self.store)
            elif visits[bid] <= self.eng.max_header_visits and self.eng.unroll:
                pass           # unrolling: the values computed so far are kept as they are
            elif visits[bid] <= self.eng.max_header_visits:
                # invariants assumed at the previous widening must be preserved by the iteration just analysed (inductive step)
                failed = False
                for (ip, isym, tmpl, outc) in loop_inv.get(bid, []):
                    if self.truth_of(subst_val(tmpl, isym, self.store.get(ip))) is not outc:
                        self.eng.inv_blacklist.add((fn['key'], bid, ip, self.tmpl_shape(tmpl, isym), outc))
                        failed = True
                if failed:
                    self.eng.noninductive += 1
                    self.eng.inv_retry = True
                    raise Cut()
                # widening: everything written since the first visit becomes unknown
                new_inv = []
                infer = self.eng.max_header_visits >= 3
                prev_syms = {ip: isym for (ip, isym, _, _) in loop_inv.get(bid, [])}
                templates = self.cmp_templates() if infer else []
                for p in sorted(set(self.writes[first_visit_mark[bid]:]), key=repr):
                    if p[0] == 'objver':
                        continue
                    old = self.store.get(p)
                    self.note_word(p, old)
                    nv = self.new_sym(show(p) + '~', bits_of(old) if old is not None else 64)
                    self.store[p] = nv
                    if p in self.word_paths:
                        self.word_results.add(nv)
                        self.path.word_syms.add(nv)
                    # loop invariants of the form `x cmp K` for comparisons that occur on the path: kept when they hold for the
                    # value at loop entry and for the value after the iteration; the next visit re-checks them (above)
                    base = first_vals[bid].get(p) if visits[bid] == 2 else prev_syms.get(p, self.last_widened.get((bid, p)))
                    if infer and p[0] == 'var' and base is not None and old is not None and p not in self.word_paths:
                        for (cmp_op, k, side) in templates:
                            tmpl = ('op', cmp_op, nv, k, 1) if side == 'l' else ('op', cmp_op, k, nv, 1)
                            t1 = self.truth_of(subst_val(tmpl, nv, base))
                            t2 = self.truth_of(subst_val(tmpl, nv, old))
                            if t1 is not None and t1 is t2 and (fn['key'], bid, p, (cmp_op, k, side), t1) not in self.eng.inv_blacklist:
                                new_inv.append((p, nv, tmpl, t1))
                    self.last_widened[(bid, p)] = nv
                for (ip, isym, tmpl, outc) in new_inv:
                    self.assume(tmpl, outc, None)
                loop_inv[bid] = new_inv
            else:
                raise Cut()
            if bid in headers:
                self.event({'kind': 'loop_head', 'header': bid, 'visit': visits[bid], 'line': None,
                            'locals': {k[2]: v for k, v in self.store.items() if isinstance(k, tuple) and k and k[0] == 'var'}})
            after_return = False
            for e in b['elems']:
                k = e['kind']
                if after_return and k != 'auto_dtor':
                    continue       # after `return x;` only the destructors of the locals still run
                if k == 'stmt':
                    v = self.ev(e['e'])
                    self.vals[e['id']] = v
                    if self.returned:
                        after_return = True
                elif k == 'init' and 'member' not in e and 'base' not in e and self.delegate_target(e, fn) is not None and self.depth < 4:
                    # delegating constructor: the target constructor initialises this object
                    cn = self.delegate_target(e, fn)
                    tgt = self.facts.functions[cn['ctor']]
                    vals_ = [self.ev(a) for a in cn['args']]
                    if len(vals_) == len(tgt['params']):
                        self.inline_call(tgt, vals_, cn, this_ptr=self.this_val)
                    if self.returned:
                        break
                elif k == 'init':
                    v = self.rv(self.ev(e['e'])) if e.get('e') is not None else None
                    if 'member' in e:
                        p = ('field', self.this_val, e['member'])
                        self.store[p] = v
                        self.writes.append(p)
                        self.event({'kind': 'init', 'member': e['member'], 'value': v, 'written': e.get('written'),
                                    'line': int(e['loc'].rsplit(':', 1)[1]) if e.get('loc') else None})
                elif k in ('member_dtor', 'auto_dtor', 'base_dtor'):
                    self.event({'kind': k, 'member': e.get('member'), 'var': e.get('var'), 'did': e.get('did'),
                                'type': e.get('type'),
                                'line': int(e['loc'].rsplit(':', 1)[1]) if e.get('loc') else None})
                    if k == 'auto_dtor' and e.get('did') is not None:
                        lp = ('var', e['did'], e.get('var'))
                        rec_l = self.store.get(('localobj', lp))
                        if rec_l:
                            dt = next((g for g in self.facts.functions.values() if g.get('record') == rec_l and g['kind'] == 'dtor' and g.get('blocks')), None)
                            if dt is not None and self.depth < 3:
                                n0_ = len(self.path.events)
                                self.inline_call(dt, [], {'line': int(e['loc'].rsplit(':', 1)[1]) if e.get('loc') else None}, this_ptr=('addr', lp))
                                self.mark_local(n0_, lp)
            if self.returned:
                break
            succs = b['succs']
            term = b.get('term')
            if bid == exit_id or not succs:
                break
            if b.get('noreturn'):
                self.path.end = 'noreturn'
                raise Infeasible()
            if term and 'cond' in term and len(succs) == 2:
                cid = term['cond_id']
                cv = mk_ne0(self.rv(self.ev(term['cond'])))
                if is_const(cv):
                    out = bool(cv[1])
                else:
                    kn = self.known(cv)
                    if kn is not None:
                        out = kn
                    else:
                        avail = [i for i in (0, 1) if succs[i] is not None]
                        if len(avail) == 2:
                            out = self.choose(2, 'br') == 0
                        else:
                            out = avail[0] == 0
                        self.assume(cv, out, term.get('line'))
                self.decided[cid] = out
                nxt = succs[0] if out else succs[1]
                if nxt is None:
                    raise Infeasible()
            elif term and term.get('cls') == 'SwitchStmt' and 'cond' in term:
                # select by the case labels of the successor blocks; a successor without a case label is the default /
                # the statement after the switch
                cv = self.rv(self.ev(term['cond']))
                live = [s for s in succs if s is not None]
                if not live:
                    raise Infeasible()
                cases = [(s, blocks[s].get('case')) for s in live]
                if is_const(cv) and all(c != '?' for _, c in cases):
                    hit = [s for s, c in cases if c is not None and int(c) == cv[1]]
                    other = [s for s, c in cases if c is None]
                    if hit:
                        nxt = hit[0]
                    elif other:
                        nxt = other[-1]
                    else:
                        raise Infeasible()
                else:
                    idx = self.choose(len(live), 'sw') if len(live) > 1 else 0
                    nxt = live[idx]
                    c = blocks[nxt].get('case')
                    if c is not None and c != '?' and not is_const(cv):
                        self.assume(mk_op('==', cv, C(int(c), bits_of(cv)), 1), True, term.get('line'))
                    elif c is None and not is_const(cv):
                        for s2, c2 in cases:
                            if c2 is not None and c2 != '?':
                                self.assume(mk_op('==', cv, C(int(c2), bits_of(cv)), 1), False, term.get('line'))
            else:
                live = [s for s in succs if s is not None]
                if not live:
                    raise Infeasible()
                if len(live) > 1:
                    nxt = live[self.choose(len(live), 'sw')]
                else:
                    nxt = live[0]
            b = blocks[nxt]
        ret = self.ret
        rl = self.ret_line
        (self.cur_fn, self.cur_elems, self.vals, self.decided, self.returned, self.ret, self.ret_line) = saved
        self.last_ret_line = rl
        if ret == ('throw',) and self.depth > 0:
            # an exception thrown by an inlined callee leaves the caller as well (no handler is modelled)
            self.returned, self.ret, self.ret_line = True, ret, rl
        return ret

    def delegate_target(self, e, fn):
        cn = e.get('e') or {}
        if cn.get('k') == 'ref':
            cn = self.cur_elems.get(cn.get('id')) or {}
        if cn.get('k') == 'construct' and cn.get('record') == fn.get('record') and not cn.get('copy_or_move'):
            tgt = self.facts.functions.get(cn.get('ctor'))
            if tgt is not None and tgt.get('blocks') and tgt['key'] != fn['key']:
                return cn
        return None

    def run(self):
        fn = self.fn
        self.this_val = S('this')
        self.spin_depth = 0
        self.cur_fn = fn
        for p in fn['params']:
            path = ('var', p['did'], p['name'])
            if path in self.store:
                continue                 # bound by the caller of paths() (e.g. a reference parameter aliased to *this)
            if p.get('isref'):
                self.store[path] = S('&' + p['name'])
            else:
                self.store[path] = S('p:' + p['name'], (p['type'].get('bits') or 64))
        try:
            ret = self.run_body(fn)
            self.path.ret = ret
            self.path.ret_line = self.last_ret_line
            self.path.end = 'throw' if ret == ('throw',) else 'return'
        except Cut:
            self.path.end = 'cut'
        except Infeasible:
            self.path.end = self.path.end or 'infeasible'
        self.path.store = self.store
        self.path.choices = tuple(self.trace)
        return self.path


class Engine:
    def __init__(self, facts, max_paths=4000, max_header_visits=2, unroll=False):
        self.facts = facts
        self.max_paths = max_paths
        self.max_header_visits = max_header_visits
        self.unroll = unroll       # loops are followed concretely (no widening) up to max_header_visits visits of a header
        self.noninductive = 0      # paths dropped because an inferred loop invariant was not preserved
        self.inv_blacklist = set() # (function, loop header, location, template) of candidates found not to be inductive
        self.inv_retry = False
        self._bm = {}
        self._em = {}
        self._spin = {}
        self._paths = {}
        self._lh = {}
        self.no_inline = set()
        import anchors as _anchors
        self.anchors = _anchors.compute(facts)      # function keys that rules analyse on their own (never inlined)

    def inline_helper(self, fn):
        """free (non-member) functions defined in the repository that are not spin functions are helpers:
        their bodies are analysed in the caller's context (parameters bound to the argument values)"""
        if fn.get('kind') not in ('function', 'method') or fn.get('cfg_error') or not fn.get('blocks'):
            return False
        if fn.get('kind') == 'function':
            if self.is_spin_function(fn):
                return False
            return fn['key'] not in self.no_inline
        # member functions: only when a rule family has declared its anchors (everything else is a helper)
        if self.anchors is None:
            return False
        return fn['key'] not in self.anchors and fn['key'] not in self.no_inline and not fn['short'].startswith('operator')

    def tu_consts(self, tu):
        if not hasattr(self, '_tuc'):
            self._tuc = {}
        if tu not in self._tuc:
            try:
                d = {c['q']: int(c['value']) for c in self.facts.tus[tu]['constants']}
            except Exception:
                d = {}
            self._tuc[tu] = d
        return self._tuc[tu]

    def private_helper(self, fn):
        """a helper that clients cannot call (a free function, or a private / protected member that is not an anchor):
        it is analysed only in the context of its callers.  A non-anchor *public* member is inlined at its call sites
        as well, but it is also analysed on its own (who-may-write rules apply to it: clients can call it)."""
        if not self.inline_helper(fn):
            return False
        return fn.get('kind') == 'function' or fn.get('access') in (1, 2)

    def block_map(self, fn):
        k = fn['key']
        if k not in self._bm:
            self._bm[k] = {b['id']: b for b in fn['blocks']}
        return self._bm[k]

    def loop_headers(self, fn):
        """targets of back edges (DFS from the entry block)"""
        k = fn['key']
        if k in self._lh:
            return self._lh[k]
        blocks = self.block_map(fn)
        heads, state = set(), {}
        stack = [(fn['entry'], iter([s for s in blocks[fn['entry']]['succs'] if s is not None]))]
        state[fn['entry']] = 1
        while stack:
            node, it = stack[-1]
            adv = False
            for s in it:
                if state.get(s) == 1:
                    heads.add(s)
                elif s not in state:
                    state[s] = 1
                    stack.append((s, iter([x for x in blocks[s]['succs'] if x is not None])))
                    adv = True
                    break
            if not adv:
                state[node] = 2
                stack.pop()
        self._lh[k] = heads
        return heads

    def elem_map(self, fn):
        k = fn['key']
        if k not in self._em:
            m = {}
            for b in fn['blocks']:
                for e in b['elems']:
                    if e['kind'] == 'stmt':
                        m[e['id']] = e['e']
            self._em[k] = m
        return self._em[k]

    # ---- spin function recognition (structural, on the callee's own CFG)
    def is_spin_function(self, fn):
        k = fn['key']
        if k in self._spin:
            return self._spin[k][0]
        ok, why = self._check_spin(fn)
        self._spin[k] = (ok, why)
        return ok

    def spin_reason(self, fn):
        self.is_spin_function(fn)
        return self._spin[fn['key']][1]

    def _check_spin(self, fn):
        """fn(proc, args...) is a spin function iff it returns void, calls its first parameter with exactly the
        remaining parameters at one call site inside a loop, has no other effects than pausing / sleeping, and every
        edge that leaves towards the function's exit (a return statement or the end of the body) is an edge on which
        the result of that call is true (`if (proc(..)) return;` or the false edge of `while (!proc(..))`)."""
        if fn.get('kind') != 'function' or not fn['params'] or fn['ret'].get('ct') != 'void':
            return False, 'not a void function with parameters'
        p0 = fn['params'][0]
        blocks = self.block_map(fn)
        calls = []
        for b in fn['blocks']:
            for e in b['elems']:
                if e['kind'] != 'stmt':
                    continue
                n = e['e']
                is_call = False
                if n.get('k') == 'opcall' and n.get('op') == '()' and n['args'] and self._is_var(n['args'][0], p0['did']):
                    is_call, rest = True, n['args'][1:]
                elif n.get('k') == 'call' and n.get('callee') == '?' and self._is_var(n.get('fnexpr') or {}, p0['did']):
                    is_call, rest = True, n['args']
                elif n.get('k') == 'call' and n.get('name') == 'std::invoke' and n['args'] and self._is_var(n['args'][0], p0['did']):
                    is_call, rest = True, n['args'][1:]
                if is_call:
                    want = [q['did'] for q in fn['params'][1:]]
                    rest = [self._unwrap(a, self.elem_map(fn)) for a in rest]
                    got = [a.get('did') for a in rest if a.get('k') == 'var']
                    if got != want or len(rest) != len(want):
                        return False, 'first parameter called with other arguments than the remaining parameters'
                    calls.append((b['id'], e['id']))
                elif n.get('k') == 'mcall' and n.get('const_method') and str(n.get('method', '')).startswith('operator ') and not n.get('args') \
                        and str(n.get('record', '')).startswith('std::reference_wrapper<'):
                    pass      # std::reference_wrapper<T>::operator T&() of a forwarded argument
                elif n.get('k') in ('mcall', 'new', 'delete', 'throw'):
                    return False, 'body has other effects (%s)' % n.get('k')
                elif n.get('k') == 'call' and n.get('name') not in ('std::this_thread::sleep_for', '_mm_pause') and not n.get('builtin'):
                    return False, 'body calls %s' % n.get('name')
                elif n.get('k') == 'opcall' and not (n.get('op') == '()'):
                    return False, 'body uses operator %s' % n.get('op')
        if not calls:
            return False, 'first parameter is never called'
        cids = {c[1] for c in calls}
        preds = {}
        for b in fn['blocks']:
            for i, s_ in enumerate(b['succs']):
                if s_ is not None:
                    preds.setdefault(s_, []).append((b['id'], i))
        # the exit region: the exit block and blocks that only return / are empty and lead to the exit
        region = {fn['exit']}
        changed = True
        while changed:
            changed = False
            for b in fn['blocks']:
                if b['id'] in region:
                    continue
                only_ret = all(e['kind'] == 'stmt' and e['e'].get('k') == 'return' for e in b['elems'])
                succs = [x for x in b['succs'] if x is not None]
                if only_ret and succs and all(x in region for x in succs) and not b.get('term'):
                    region.add(b['id'])
                    changed = True

        def call_truth(cond):
            """+1 if cond is the call result, -1 if it is its negation, 0 otherwise"""
            sign = 1
            c = cond
            elems = self.elem_map(fn)
            for _ in range(16):
                if c.get('k') == 'cast':
                    c = c['e']
                elif c.get('k') == 'un' and c.get('op') == '!':
                    sign, c = -sign, c['e']
                elif c.get('k') == 'ref' and c.get('id') not in cids and c.get('id') in elems:
                    c = elems[c['id']]
                else:
                    break
            return sign if c.get('id') in cids else 0
        entered = 0
        for r in list(region):
            for (pb, idx) in preds.get(r, []):
                if pb in region:
                    continue
                t = blocks[pb].get('term')
                if not t or 'cond' not in t:
                    return False, 'the function can reach its exit without testing the procedure result'
                ct = call_truth(t['cond'])
                if not ((ct == 1 and idx == 0) or (ct == -1 and idx == 1)):
                    return False, 'an exit edge is not the "procedure returned true" edge'
                entered += 1
        if not entered:
            return False, 'no exit edge found'
        in_loop = False
        for cb, _ in calls:
            seen, todo = set(), [x for x in blocks[cb]['succs'] if x is not None]
            while todo:
                x = todo.pop()
                if x in seen:
                    continue
                seen.add(x)
                todo.extend(y for y in blocks[x]['succs'] if y is not None)
            in_loop = in_loop or cb in seen
        if not in_loop:
            return False, 'procedure call is not in a loop'
        return True, 'calls its first parameter in a loop and leaves only when a call returned true'

    def spin_rounds(self, fn):
        """(ok, detail): every round of the outermost loop of a spin function evaluates the procedure at least once.  Decided by
        following the body with the configured constants (a retry bound of 0 makes `for (i = 0; i < bound; ++i) if (proc()) return;`
        a loop that only sleeps); paths that are cut because they never leave the loop are inspected too."""
        cache = self.__dict__.setdefault('_spin_rounds', {})
        if fn['key'] in cache:
            return cache[fn['key']]
        try:
            res = self.paths(fn, init_store={}, keep=('return', 'throw', 'cut'))
        except AnalysisBroken as ex:
            cache[fn['key']] = (None, str(ex)[:100])
            return cache[fn['key']]
        out = (True, 'every round of the outer loop calls the procedure (%d paths followed)' % len(res['paths']))
        for p in res['paths']:
            heads = [e for e in p.events if e['kind'] == 'loop_head']
            if not heads:
                continue
            outer = heads[0]['header']
            idx = [e['seq'] for e in heads if e['header'] == outer]
            for a, b in zip(idx, idx[1:]):
                seg = p.events[a:b]
                # (a function accepted as a spin function calls nothing but its procedure and the pause / sleep primitives)
                called = any(e['kind'] in ('inline_begin', 'lambda_call') or
                             (e['kind'] == 'call' and (e.get('name') or '') not in ('std::this_thread::sleep_for', 'sleep_for', '_mm_pause', '__builtin_ia32_pause') and
                              not str(e.get('name') or '').startswith('std::chrono')) for e in seg)
                if not called:
                    out = (False, 'a round of the outer loop (blocks %s) does not call the procedure: with this configuration the helper only pauses / sleeps '
                                  'and never sees the condition become true' % sorted({e.get('header') for e in seg if e['kind'] == 'loop_head'}))
                    break
            if out[0] is False:
                break
        cache[fn['key']] = out
        return out

    @staticmethod
    def _unwrap(a, elems=None):
        while True:
            if a.get('k') == 'cast':
                a = a['e']
            elif a.get('k') == 'ref' and elems and a.get('id') in elems:
                a = elems[a['id']]
            elif a.get('k') == 'mcall' and str(a.get('record', '')).startswith('std::reference_wrapper<') and not a.get('args'):
                a = a['obj']
            else:
                return a

    def _is_var(self, a, did):
        a = self._unwrap(a)
        return a.get('k') == 'var' and a.get('did') == did

    # ---- path enumeration
    def paths(self, fn, init_store=None, keep=('return', 'throw')):
        key = fn['key']
        if init_store is None and key in self._paths:
            return self._paths[key]
        for attempt in range(12):
            # loop invariants are inferred optimistically; one that an iteration does not preserve is black-listed and
            # the function is explored again without it, until every assumed invariant is inductive
            self.inv_retry = False
            out, cuts, spin_fail = [], 0, []
            stack = [()]
            n = 0
            while stack:
                prefix = stack.pop()
                n += 1
                if n > self.max_paths:
                    raise AnalysisBroken('%s: more than %d paths' % (key, self.max_paths))
                sim = Sim(self, fn, prefix, init_store)
                p = sim.run()
                for (pos, cnt) in sim.pending:
                    for alt in range(1, cnt):
                        stack.append(tuple(sim.trace[:pos]) + (alt,))
                spin_fail.extend(sim.spin_fail)
                if p.end == 'cut':
                    cuts += 1
                if p.end in keep:
                    out.append(p)
            if not self.inv_retry:
                break
        else:
            raise AnalysisBroken('%s: loop invariant inference does not stabilise' % key)
        res = {'paths': out, 'cuts': cuts, 'spin_fail': spin_fail, 'explored': n}
        if init_store is None:
            self._paths[key] = res
        return res
