"""Mutant / refactor corpora (thorough tier, DESIGN.md 'rule discipline').

A mutant is a textual edit of a scratch copy of the repository (never of /repo) that breaks a
property while still compiling; the checker must refute the named rule on it.  A refactor is
a behaviour-preserving edit; the checker must stay silent (no violation).  The corpora test
the *checker*: a missed mutant or a noisy refactor makes the thorough run exit 2
(analysis-broken), never a violation of /repo.  Edits whose anchor text no longer exists in
the current tree are skipped and reported as such.
"""
import os
import shutil
import subprocess
import sys
import tempfile
import concurrent.futures

import facts as F

BASE_REPO = F.REPO

P = 'src/lock/pessimistic_lock.cpp'
O = 'src/lock/optimistic_lock.cpp'
M = 'src/lock/mcs_lock.cpp'
OH = 'include/dbgroup/lock/optimistic_lock.hpp'
PH = 'include/dbgroup/lock/pessimistic_lock.hpp'
MH = 'include/dbgroup/lock/mcs_lock.hpp'
I = 'src/thread/id_manager.cpp'
E = 'src/thread/epoch_manager.cpp'
EH = 'include/dbgroup/thread/epoch_manager.hpp'
EP = 'src/thread/component/epoch.cpp'
EG = 'src/thread/epoch_guard.cpp'
Z = 'src/random/zipf.cpp'
ZH = 'include/dbgroup/random/zipf.hpp'

# (id, property ids that must report it, rule prefix expected, [(file, old, new, occurrence)], description)
MUTANTS = [
    ('p_locksix_mask', ['C01'], 'C01.ADM', [(P, '(cur & kXMask) == kNoLocks\n               && lock->compare_exchange_weak(cur, cur | kSIXLock', '(cur & kXLock) == kNoLocks\n               && lock->compare_exchange_weak(cur, cur | kSIXLock', 1)], 'LockSIX tests X only: two SIX holders'),
    ('p_lockx_weak_guard', ['C01'], 'C01.ADM', [(P, 'return cur == kNoLocks\n', 'return (cur & kXMask) == kNoLocks\n', 1)], 'LockX ignores shared holders'),
    ('p_unlocksix_clears_x', ['C01'], 'C01.REL', [(P, 'lock_.fetch_xor(kSIXLock, kRelease);', 'lock_.fetch_xor(kXMask, kRelease);', 1)], 'UnlockSIX flips X as well'),
    ('p_locks_check_then_act', ['C01'], 'C01', [(P, 'return (cur & kXLock) == kNoLocks\n               && lock->compare_exchange_weak(cur, cur + kSLock, kAcquire, kRelaxed);', 'return (cur & kXLock) == kNoLocks\n               && ((lock->fetch_add(kSLock, kAcquire) & 0) == 0);', 1)], 'LockS: load, test, unconditional fetch_add'),
    ('p_unlocks_relaxed', ['C08'], 'C08.REL', [(P, 'lock_.fetch_sub(kSLock, kRelease);', 'lock_.fetch_sub(kSLock, kRelaxed);', 1)], 'relaxed S release'),
    ('p_upgrade_relaxed', ['C08'], 'C08.ACQ', [(P, 'lock->compare_exchange_weak(cur, kXLock, kAcquire, kRelaxed)', 'lock->compare_exchange_weak(cur, kXLock, kRelaxed, kRelaxed)', 1)], 'relaxed upgrade CAS'),
    ('p_exchange_selfmove', ['C07'], 'C07.ASSIGN', [(P, 'PessimisticLock::SGuard::operator=(  //\n    SGuard &&rhs) noexcept           //\n    -> SGuard &\n{\n  if (dest_) {\n    dest_->UnlockS();\n  }\n  dest_ = rhs.dest_;\n  rhs.dest_ = nullptr;', 'PessimisticLock::SGuard::operator=(  //\n    SGuard &&rhs) noexcept           //\n    -> SGuard &\n{\n  if (dest_ != nullptr) {\n    dest_->UnlockS();\n  }\n  dest_ = std::exchange(rhs.dest_, nullptr);', 1), (P, '#include <cstdint>', '#include <cstdint>\n#include <utility>', 1)], 'std::exchange after the release: a self-move-assigned guard owns a released lock'),
    ('p_upgrade_empty_guard', ['C07', 'C10'], 'C07.CONV', [(P, '  return XGuard{dest};\n}', '  return XGuard{dest_};\n}', 1)], 'UpgradeToX returns empty guard (the pinned defect D1)'),
    ('p_upgrade_ignores_readers', ['C10', 'C01'], 'C10.UPG', [(P, 'return cur == kSIXLock && lock->compare_exchange_weak(cur, kXLock', 'return (cur & kXMask) == kSIXLock && lock->compare_exchange_weak(cur, (cur ^ kXMask)', 1)], 'upgrade does not wait for shared holders'),
    ('p_downgrade_gap', ['C10'], 'C10', [(P, '  dest->lock_.store(kSIXLock, kRelease);\n  return SIXGuard{dest};', '  dest->lock_.store(kNoLocks, kRelease);\n  return dest->LockSIX();', 1)], 'downgrade = release then reacquire'),
    ('p_xguard_dtor_double', ['C07'], 'C07', [(P, 'PessimisticLock::XGuard::~XGuard()\n{\n  if (dest_) {\n    dest_->UnlockX();\n  }', 'PessimisticLock::XGuard::~XGuard()\n{\n  if (dest_) {\n    dest_->UnlockX();\n    dest_->UnlockX();\n  }', 1)], 'double release in destructor'),
    ('p_sguard_assign_leak', ['C07'], 'C07', [(P, 'SGuard &&rhs) noexcept           //\n    -> SGuard &\n{\n  if (dest_) {\n    dest_->UnlockS();\n  }\n', 'SGuard &&rhs) noexcept           //\n    -> SGuard &\n{\n', 1)], 'move assignment forgets to release the overwritten grant'),
    ('o_trylocks_relaxed', ['C08'], 'C08.ACQ', [(O, 'lock->compare_exchange_weak(*cur, *cur + kSLock, kAcquire, kRelaxed));\n      },\n      &(dest_->lock_), &cur, ver_);', 'lock->compare_exchange_weak(*cur, *cur + kSLock, kRelaxed, kRelaxed));\n      },\n      &(dest_->lock_), &cur, ver_);', 1)], 'TryLockS CAS relaxed'),
    ('o_tryx_ignores_s', ['C01'], 'C01.ADM', [(O, 'return (*cur & kAllLockMask) == kNoLocks\n               && ((*cur & kXAndVersionMask) != ver', 'return (*cur & kXMask) == kNoLocks\n               && ((*cur & kXAndVersionMask) != ver', 1)], 'TryLockX ignores shared holders'),
    ('o_getversion_no_wait', ['C03'], 'C03.SAMPLE', [(O, '        *cur = lock->load(kAcquire);\n        return (*cur & kXLock) == kNoLocks;\n      },\n      &lock_, &cur);\n\n  return OptGuard', '        *cur = lock->load(kAcquire);\n        return true;\n      },\n      &lock_, &cur);\n\n  return OptGuard', 1)], 'GetVersion hands out a version while X is held'),
    ('o_verify_stale', ['C03'], 'C03.VERIFY', [(O, '  auto expected = ver_;\n  ver_ = static_cast<uint32_t>(cur & kVersionMask);\n  return ver_ == expected;\n}\n\nauto\nOptimisticLock::OptGuard::TryLockS', '  auto expected = ver_;\n  return static_cast<uint32_t>(cur & kVersionMask) == expected;\n}\n\nauto\nOptimisticLock::OptGuard::TryLockS', 1)], 'failed VerifyVersion does not refresh the version'),
    ('o_trysix_wrong_version', ['C03'], 'C', [(O, '&& ((*cur & kVersionMask) != ver\n                   || lock->compare_exchange_weak(*cur, *cur | kSIXLock', '&& ((*cur & kVersionMask) < ver\n                   || lock->compare_exchange_weak(*cur, *cur | kSIXLock', 1)], 'TryLockSIX acquires on a newer version'),
    ('o_ver_plus_two', ['C09'], 'C09.FLOW', [(OH, 'new_ver_{ver + 1U}', 'new_ver_{ver + 2U}', 1)], 'default version +2'),
    ('o_newver_u64', ['C09'], 'C09', [(OH, '    uint32_t new_ver_{};', '    uint64_t new_ver_{};', 1), (OH, 'SetVersion(  //\n        const uint32_t ver)', 'SetVersion(  //\n        const uint64_t ver)', 1)], 'version to publish widened to 64 bits: SetVersion can set lock bits'),
    ('o_downgrade_old_ver', ['C09'], 'C09.VAL', [(O, 'dest->lock_.store(new_ver_ | kSIXLock, kRelease);', 'dest->lock_.store(old_ver_ | kSIXLock, kRelease);', 1)], 'downgrade republishes the old version'),
    ('o_unlocksix_sub1', ['C09', 'C01'], 'C01.REL', [(O, 'lock_.fetch_xor(kSIXLock, kRelease);', 'lock_.fetch_sub(1UL, kRelease);', 1)], 'UnlockSIX decrements the version'),
    ('o_upgrade_ver_shift', ['C09'], 'C09.FLOW', [(O, '  return XGuard{dest, static_cast<uint32_t>(cur)};\n}', '  return XGuard{dest, static_cast<uint32_t>(cur >> 32UL)};\n}', 1)], 'UpgradeToX passes the wrong bits as acquisition version'),
    ('o_prepare_on_top_of_s', ['C13'], 'C13', [(O, '&& ((*cur & kAllLockMask)\n                   || lock->compare_exchange_weak(*cur, *cur + kSLock', '&& ((*cur & kSIXLock)\n                   || lock->compare_exchange_weak(*cur, *cur + kSLock', 1), (O, 'return (cur & kAllLockMask) ? CompositeGuard{this, static_cast<uint32_t>(cur)}', 'return (cur & kSIXLock) ? CompositeGuard{this, static_cast<uint32_t>(cur)}', 1)], 'PrepareRead adds a shared grant on top of shared holders'),
    ('o_prepare_selector', ['C13', 'C01'], 'C', [(O, 'return (cur & kAllLockMask) ? CompositeGuard{this, static_cast<uint32_t>(cur)}\n                              : CompositeGuard{this};', 'return (cur & kSMask) ? CompositeGuard{this, static_cast<uint32_t>(cur)}\n                              : CompositeGuard{this};', 1)], 'PrepareRead: SIX-held word selects the owning constructor without a CAS'),
    ('o_composite_verify_locked', ['C13'], 'C13.VERIFY', [(O, '  if (has_lock_) return true;\n', '  if (has_lock_) return false;\n', 1)], 'VerifyVersion fails for a guard holding a shared grant'),
    ('o_composite_dtor', ['C07', 'C13'], 'C07', [(O, 'OptimisticLock::CompositeGuard::~CompositeGuard()\n{\n  if (has_lock_) {', 'OptimisticLock::CompositeGuard::~CompositeGuard()\n{\n  if (dest_ != nullptr) {', 1)], 'composite destructor releases S for version-only guards'),
    ('m_lockx_wait_xmask', ['C01', 'C11'], 'MCS.WAIT', [(M, 'return (lock->load(kAcquire) & kLockMask) == kNoLocks;', 'return (lock->load(kAcquire) & kXMask) == kNoLocks;', 1)], 'MCS LockX does not wait for the shared holders ahead of it'),
    ('m_inherit_x_only', ['C01', 'C11'], 'MCS.INH', [(M, 'qnode->lock_.fetch_xor(kXLock ^ (cur & kLockMask), kRelaxed);', 'qnode->lock_.fetch_xor(kXLock ^ (cur & kXMask), kRelaxed);', 0)], 'new node inherits only X/SIX, not the shared count'),
    ('m_pubstore', ['C02'], 'C02.PUBSTORE', [(M, 'qnode->lock_.fetch_xor(kXLock ^ (cur & kLockMask), kRelaxed);', 'qnode->lock_.store(cur & kLockMask, kRelaxed);', 0)], 'blind store after publication (the pinned defect D2)'),
    ('m_unlocks_leak', ['C12'], 'C12.REL', [(M, '(next->lock_.fetch_sub(kSLock, kRelease) & kLockMask) == kSLock', '(next->lock_.fetch_sub(kSLock, kRelease) & kSMask) == kNoLocks', 1)], 'reclaim predicate never true (the pinned defect D3)'),
    ('m_unlocks_tail_relaxed', ['C08'], 'C08.REL', [(M, 'if (lock_.compare_exchange_weak(cur, unlock, kRelease, kRelaxed)) return;', 'if (lock_.compare_exchange_weak(cur, unlock, kRelaxed, kRelaxed)) return;', 1)], 'relaxed S release on the tail path'),
    ('m_upgrade_drain_relaxed', ['C08'], 'C08.ACQ', [(M, '*next_ptr = lock->load(kAcquire);\n        return (*next_ptr & kSMask) == kNoLocks;\n      },\n      &(qnode_->lock_), &next_ptr);', '*next_ptr = lock->load(kRelaxed);\n        return (*next_ptr & kSMask) == kNoLocks;\n      },\n      &(qnode_->lock_), &next_ptr);', 1)], 'upgrade drain load relaxed'),
    ('m_unlockx_early_recycle', ['C12'], 'C12.REL', [(M, 'if ((next->lock_.fetch_xor(kXLock, kRelease) & kSMask) == kNoLocks) {', 'if ((next->lock_.fetch_xor(kXLock, kRelease) & kXMask) != kNoLocks) {', 1)], 'X release recycles the node while shared members of the group still use it'),
    ('m_locks_no_reset', ['C12'], 'C12.ACQ', [(M, '  tls_node_.reset(qnode);\n  tail_ptr = cur & kPtrMask;', '  tail_ptr = cur & kPtrMask;', 1)], 'joining shared request drops its unused node'),
    ('m_unlocksix_no_drain', ['C01'], 'MCS.DRAIN', [(M, '        *next_ptr = lock->load(kAcquire);\n        return (*next_ptr & kSMask) == kNoLocks;\n      },\n      &(qnode->lock_), &next_ptr);', '        *next_ptr = lock->load(kAcquire);\n        return true;\n      },\n      &(qnode->lock_), &next_ptr);', 1)], 'SIX release does not wait for the shared holders ahead of it'),
    ('m_downgrade_two_writes', ['C10'], 'C10.NOGAP', [(M, '  next->lock_.fetch_xor(kXMask, kRelease);\n  return SIXGuard{dest, qnode_};', '  next->lock_.fetch_xor(kXLock, kRelease);\n  next->lock_.fetch_xor(kSIXLock, kRelease);\n  return SIXGuard{dest, qnode_};', 1)], 'downgrade clears X and sets SIX in two steps'),
    ('m_unlockx_tail_noclear', ['C01', 'C02'], 'MCS.CLR', [(M, 'if (lock_.compare_exchange_weak(cur, cur ^ kXLock, kRelease, kRelaxed)) return;', 'if (lock_.compare_exchange_weak(cur, cur, kRelease, kRelaxed)) return;', 1)], 'X release leaves the X flag on the lock word'),
    ('m_upgrade_null_node', ['C07', 'C10'], 'C07.CONV', [(M, '  next->lock_.fetch_xor(kXMask, kRelaxed);\n  return XGuard{dest, qnode_};', '  next->lock_.fetch_xor(kXMask, kRelaxed);\n  return XGuard{dest, nullptr};', 1)], 'upgraded guard loses its queue node'),
    ('m_locksix_cas_tail', ['C11'], 'C11.TAIL', [(M, '  const auto cur = lock_.exchange(new_tail | kSIXLock, kAcquire);', '  auto cur = lock_.load(kRelaxed);\n  while (!lock_.compare_exchange_weak(cur, (cur & kSMask) ? cur : (new_tail | kSIXLock), kAcquire, kRelaxed) || (cur & kSMask)) {\n  }', 1)], 'SIX arrival retries instead of swapping the tail unconditionally: later shared requests overtake it'),
    ('i_dtor_order', ['C15', 'C04'], 'C15.ORDER', [(I, '  id_.reset();  // expire the heartbeat before the ID can be reused\n  _id_vec[id].store(false, kRelease);', '  _id_vec[id].store(false, kRelease);\n  id_.reset();', 1)], 'ID freed before the heartbeat expires (the pinned defect D5)'),
    ('i_free_relaxed', ['C15'], 'C15.SYNC', [(I, '_id_vec[id].store(false, kRelease);', '_id_vec[id].store(false, kRelaxed);', 1)], 'FREE relaxed'),
    ('i_claim_check_then_store', ['C05'], 'C05.CLAIM', [(I, '} while (_id_vec[id].load(kRelaxed) || _id_vec[id].exchange(true, kAcquire));', '} while (_id_vec[id].load(kRelaxed));\n    _id_vec[id].store(true, kRelaxed);', 1)], 'claim = load, test, plain store'),
    ('i_range_off_by_one', ['C05'], 'C05.RANGE', [(I, 'if (++id >= kMaxThreadNum) {', 'if (++id > kMaxThreadNum) {', 1)], 'probe index can equal the capacity'),
    ('i_setid_other', ['C05'], 'C05.CLAIM', [(I, '    hb.SetID(id);', '    hb.SetID((id + 1) % kMaxThreadNum);', 1)], 'records a different ID than the one claimed'),
    ('i_static_holder', ['C05', 'C14'], 'C05.STABLE', [(I, 'thread_local HeartBeater hb{};', 'static HeartBeater hb{};', 1)], 'holder shared by all threads'),
    ('e_scan_skip_last', ['C04'], 'C04.SCAN', [(E, 'for (size_t i = 0; i < kMaxThreadNum; ++i) {', 'for (size_t i = 0; i < kMaxThreadNum - 1; ++i) {', 1)], 'scan misses the last slot'),
    ('e_scan_no_cur', ['C04', 'C16', 'C20'], 'C04.SCAN', [(E, '  protected_epochs.emplace_back(cur_epoch);\n', '', 1)], 'current epoch not appended'),
    ('e_forward_plus2', ['C16'], 'C16.STEP', [(E, 'const auto next_epoch = cur_epoch + 1;', 'const auto next_epoch = cur_epoch + 2;', 1)], 'epoch advances by two'),
    ('e_publish_before_fill', ['C04', 'C17'], 'C04.PUBLISH', [(E, '  CollectProtectedEpochs(cur_epoch, protected_epochs);\n  RemoveOutDatedLists(protected_epochs);\n\n  // store the max/min epoch values for efficiency\n  global_epoch_.store(next_epoch, std::memory_order_release);', '  global_epoch_.store(next_epoch, std::memory_order_release);\n  CollectProtectedEpochs(cur_epoch, protected_epochs);\n  RemoveOutDatedLists(protected_epochs);\n', 1)], 'new epoch published before its list is filled'),
    ('e_min_front', ['C16', 'C20'], 'C16.MIN', [(E, 'min_epoch_.store(protected_epochs.back(), std::memory_order_relaxed);', 'min_epoch_.store(protected_epochs.front(), std::memory_order_relaxed);', 1)], 'minimum taken from the wrong end'),
    ('e_sort_ascending', ['C16', 'C17', 'C20'], 'C16.SORT', [(E, 'std::greater<size_t>{}', 'std::less<size_t>{}', 1)], 'ascending list'),
    ('e_leave_zero', ['C04', 'C16'], 'C04.ENTER', [(EP, 'entered_.store(std::numeric_limits<size_t>::max(), kRelaxed);', 'entered_.store(0, kRelaxed);', 1)], 'LeaveEpoch pins epoch 0 for ever'),
    ('e_guard_dtor_no_leave', ['C04', 'C16'], 'C04.GUARD', [(EG, 'EpochGuard::~EpochGuard()\n{\n  if (epoch_ != nullptr) {\n    epoch_->LeaveEpoch();\n  }\n}', 'EpochGuard::~EpochGuard()\n{\n}', 1)], 'destroyed guard keeps pinning'),
    ('e_bind_no_rebind', ['C04'], 'C04.BIND', [(E, '    tls.epoch.SetGrobalEpoch(&global_epoch_);\n', '', 1)], 'slot not bound to the global epoch'),
    ('e_lookup_current', ['C17'], 'C17.OWN', [(E, 'const auto e = guard.GetProtectedEpoch();', 'const auto e = GetCurrentEpoch();', 1)], 'list looked up by the current epoch, not the guard\'s'),
    ('e_delete_before_unlink', ['C17', 'C20'], 'C', [(E, '      prev->next = current->next;\n      delete current;', '      delete current;\n      prev->next = current->next;', 1)], 'node used after delete'),
    ('e_dtor_head_only', ['C20'], 'C20.WALK', [(E, '  auto *pro_next = protected_lists_;\n  while (pro_next != nullptr) {\n    auto *current = pro_next;\n    pro_next = current->next;\n    delete current;\n  }', '  delete protected_lists_;', 1)], 'destructor frees only the head'),
    ('e_global_store_relaxed', ['C16', 'C17'], 'C16.STEP', [(E, 'global_epoch_.store(next_epoch, std::memory_order_release);', 'global_epoch_.store(next_epoch, std::memory_order_relaxed);', 1)], 'publication not a release'),
    ('z_static_dist', ['C19'], 'C19.TLS', [(ZH, 'thread_local std::uniform_real_distribution<double> uniform_dist{0.0, 1.0};  // NOLINT', 'static std::uniform_real_distribution<double> uniform_dist{0.0, 1.0};  // NOLINT', 1)], 'distribution object shared between threads'),
    ('z_mutable_counter', ['C19'], 'C19.NOMUT', [(ZH, '  /// @brief A cumulative distribution function according to Zipf\'s law.\n  std::vector<double> zipf_cdf_{};', '  mutable size_t calls_{0};\n  /// @brief A cumulative distribution function according to Zipf\'s law.\n  std::vector<double> zipf_cdf_{};', 1), (ZH, '    const auto target_prob = uniform_dist(g);\n\n    // find a target bin by using a binary search\n    int64_t begin_pos = 0;\n    int64_t end_pos = zipf_cdf_.size() - 1;', '    const auto target_prob = uniform_dist(g);\n    ++calls_;\n\n    // find a target bin by using a binary search\n    int64_t begin_pos = 0;\n    int64_t end_pos = zipf_cdf_.size() - 1;', 1)], 'hidden mutable state in the generator'),
    ('z_reject_overflow', ['C19'], 'C19.REJECT', [(Z, '  if (max < min) {\n    throw std::runtime_error{"The maximum value must be greater than the minimum one."};\n  }\n  UpdateCDF();\n}\n\ntemplate <class IntType>\nvoid\nZipfDistribution<IntType>::UpdateCDF()', '  if (max + 1 < min) {\n    throw std::runtime_error{"The maximum value must be greater than the minimum one."};\n  }\n  UpdateCDF();\n}\n\ntemplate <class IntType>\nvoid\nZipfDistribution<IntType>::UpdateCDF()', 1)], 'argument check off by one / overflowing'),
    ('z_no_pin', ['C06'], 'C06.PIN', [(Z, '  zipf_cdf_.at(bin_num - 1) = 1.0;\n', '', 1)], 'last CDF entry not pinned to 1.0'),
    ('z_pin_wrong_index', ['C06'], 'C06.PIN', [(Z, '    zipf_cdf_.at(n_ - 1) = 1.0;', '    zipf_cdf_.at(n_ - 2) = 1.0;', 1)], 'pin written to the wrong bin'),
    ('z_denom_minus', ['C06'], 'C06.DENOM', [(Z, 'denom_{GetHarmonicNum(n_)}', 'denom_{GetHarmonicNum(n_ - 1)}', 1)], 'normalisation by H(n-1): last bin above 1'),
    ('z_switch_le', ['C06'], 'C06.SWITCH', [(ZH, 'if (id < static_cast<IntType>(kExactBinNum)) return zipf_cdf_.at(id);', 'if (id <= static_cast<IntType>(kExactBinNum)) return zipf_cdf_.at(id);', 1)], 'reader reads one past the exact table'),
    ('z_unchecked_access', ['C06'], 'C06.ACCESS', [(ZH, '      const auto cdf_val = zipf_cdf_.at(pos);', '      const auto cdf_val = zipf_cdf_[pos];', 1)], 'unchecked table access'),
    ('z_end_pos', ['C06'], 'C06.RANGE', [(ZH, 'int64_t end_pos = n_ - 1;', 'int64_t end_pos = n_;', 1)], 'search interval one bin too wide'),
    ('e_public_reset', ['C16'], 'C16.STEP', [(EH, '  [[nodiscard]] auto GetMinEpoch() const  //\n      -> size_t;\n', '  [[nodiscard]] auto GetMinEpoch() const  //\n      -> size_t;\n\n  void ResetEpochs() { global_epoch_.store(kInitialEpoch, std::memory_order_release); }\n', 1)], 'a new public member rewinds the global epoch (non-anchor public members are analysed on their own)'),
    ('p_public_force_unlock', ['C01'], 'C01.WHO', [(PH, '  constexpr PessimisticLock() = default;\n', '  constexpr PessimisticLock() = default;\n\n  void ForceUnlock() { lock_.store(0UL, std::memory_order_release); }\n', 1)], 'a new public member clears the lock word'),
    # ---- hand mutants, batch 3
    ('e_node_created_late', ['C20', 'C17', 'C16'], 'C20.ALLOC', [(E, 'if ((next_epoch & kLowerMask) == 0UL) {', 'if ((cur_epoch & kLowerMask) == 0UL) {', 1)], 'list node for a new range created one epoch late: the list of the boundary epoch is filed in the old node'),
    ('e_dtor_leaks_last', ['C20'], 'C20', [(E, '  while (pro_next != nullptr) {\n    auto *current = pro_next;', '  while (pro_next->next != nullptr) {\n    auto *current = pro_next;', 1)], 'destructor leaks the oldest node'),
    ('e_no_unique', ['C20', 'C16'], 'C16.SORT', [(E, '  auto &&end_iter = std::unique(protected_epochs.begin(), protected_epochs.end());\n  protected_epochs.erase(end_iter, protected_epochs.end());\n', '', 1)], 'duplicates kept in the list'),
    ('e_lookup_ge', ['C17', 'C20'], 'C', [(EH, 'while (node->upper_epoch_ > upper_epoch) {', 'while (node->upper_epoch_ >= upper_epoch && node->next != nullptr) {', 1)], 'node lookup walks one node too far'),
    ('e_lookup_index_upper', ['C17', 'C20'], 'C', [(EH, 'return node->epoch_lists_.at(epoch & kLowerMask);', 'return node->epoch_lists_.at((epoch + 1) & kLowerMask);', 1)], 'list slot of the neighbouring epoch'),
    ('ep_enter_relaxed_load', ['C17'], 'C', [(EP, 'current_->load(kAcquire)', 'current_->load(kRelaxed)', 1)], 'EnterEpoch reads the global epoch relaxed'),
    ('i_hasid_inverted_cache', ['C05'], 'C05', [(I, '  return id_.use_count() > 0;', '  return id_.use_count() > 1;', 1)], 'HasID false while only the holder owns the id: a new ID on every call'),
    ('z_approx_lower', ['C06'], 'C06', [(ZH, 'if (id < static_cast<IntType>(kExactBinNum)) return zipf_cdf_.at(id);', 'if (id < static_cast<IntType>(kExactBinNum)) return zipf_cdf_.at(id + 1);', 1)], 'approximate CDF reads the neighbouring exact bin'),
]

REFACTORS = [
    ('r_e_boundary_cur_mask', ['C20', 'C16', 'C17'], [(E, 'if ((next_epoch & kLowerMask) == 0UL) {', 'if ((cur_epoch & kLowerMask) == kLowerMask) {', 1)], 'node boundary tested on the current epoch (all lower bits set)'),
    ('r_e_boundary_mod', ['C20', 'C16', 'C17'], [(E, 'if ((next_epoch & kLowerMask) == 0UL) {', 'if (next_epoch % kCapacity == 0UL) {', 1)], 'node boundary as a remainder'),
    ('r_e_boundary_not', ['C20', 'C16', 'C17'], [(E, 'if ((next_epoch & kLowerMask) == 0UL) {', 'if (!(next_epoch & kLowerMask)) {', 1)], 'node boundary with operator!'),
    ('r_e_dtor_for', ['C20'], [(E, '  auto *pro_next = protected_lists_;\n  while (pro_next != nullptr) {\n    auto *current = pro_next;\n    pro_next = current->next;\n    delete current;\n  }', '  for (auto *node = protected_lists_; node != nullptr;) {\n    auto *const following = node->next;\n    delete node;\n    node = following;\n  }', 1)], 'destructor walk as a for loop'),
    ('r_p_unlocksix_and', ['C01', 'C08', 'C02'], [(P, 'lock_.fetch_xor(kSIXLock, kRelease);', 'lock_.fetch_and(~kSIXLock, kRelease);', 1)], 'fetch_and(~K) instead of fetch_xor(K)'),
    ('r_o_lockx_plus', ['C01', 'C09'], [(O, 'lock->compare_exchange_weak(*cur, *cur | kXLock, kAcquire, kRelaxed);\n      },\n      &lock_, &cur);', 'lock->compare_exchange_weak(*cur, *cur + kXLock, kAcquire, kRelaxed);\n      },\n      &lock_, &cur);', 1)], '+ instead of | where the guard implies the bit is clear'),
    ('r_p_upgrade_fence', ['C08'], [(P, 'return cur == kSIXLock && lock->compare_exchange_weak(cur, kXLock, kAcquire, kRelaxed);', 'if (cur != kSIXLock || !lock->compare_exchange_weak(cur, kXLock, kRelaxed, kRelaxed)) return false;\n        std::atomic_thread_fence(kAcquire);\n        return true;', 1)], 'acquire fence after a relaxed CAS; if instead of &&'),
    ('r_p_rename_const', ['C01', 'C10'], [(P, 'kXMask', 'kExclusiveOrSIX', 0)], 'renamed constant'),
    ('r_p_lockx_mask_spelled', ['C01'], [(P, 'return cur == kNoLocks\n', 'return (cur & ~0UL) == 0UL\n', 1)], 'same predicate spelled with a mask'),
    ('r_p_seqcst', ['C08'], [(P, 'lock_.fetch_sub(kSLock, kRelease);', 'lock_.fetch_sub(kSLock);', 1)], 'default (seq_cst) order'),
    ('r_o_unlocks_add_neg', ['C01'], [(O, 'lock_.fetch_sub(kSLock, kRelease);', 'lock_.fetch_add(~kSLock + 1UL, kRelease);', 1)], 'fetch_add of the two\'s complement (unsupported idiom is acceptable, a violation is not)'),
    ('r_m_unlockx_and', ['C01', 'C12', 'C08'], [(M, 'next->lock_.fetch_xor(kXLock, kRelease)', 'next->lock_.fetch_and(~kXLock, kRelease)', 1)], 'fetch_and(~X) instead of fetch_xor(X) on the successor node'),
    ('r_m_exchange_acqrel', ['C08', 'C11'], [(M, 'lock_.exchange(new_tail | kXLock, kAcquire)', 'lock_.exchange(new_tail | kXLock, std::memory_order_acq_rel)', 1)], 'stronger order'),
    ('r_m_unlocks_pred_spelled', ['C12'], [(M, '(next->lock_.fetch_sub(kSLock, kRelease) & kLockMask) == kSLock', '((next->lock_.fetch_sub(kSLock, kRelease) - kSLock) & kLockMask) == kNoLocks', 1)], 'reclaim predicate spelled differently'),
    ('r_i_dtor_assign_null', ['C15', 'C05', 'C14'], [(I, '  id_.reset();  // expire the heartbeat before the ID can be reused', '  id_ = nullptr;', 1)], 'id_ = nullptr instead of reset()'),
    ('r_e_min_local', ['C16', 'C04'], [(E, '  global_epoch_.store(next_epoch, std::memory_order_release);\n  min_epoch_.store(protected_epochs.back(), std::memory_order_relaxed);', '  const auto min_e = protected_epochs.back();\n  global_epoch_.store(next_epoch, std::memory_order_release);\n  min_epoch_.store(min_e, std::memory_order_relaxed);', 1)], 'minimum read into a local first'),
    ('r_e_seqcst', ['C16', 'C17'], [(E, 'global_epoch_.store(next_epoch, std::memory_order_release);', 'global_epoch_.store(next_epoch);', 1)], 'seq_cst store'),
    ('r_z_reject_spelled', ['C19'], [(Z, '  if (max < min) {', '  if (min > max) {', 0)], 'same test spelled min > max'),
    ('r_z_pin_back', ['C06'], [(Z, '  zipf_cdf_.at(bin_num - 1) = 1.0;', '  zipf_cdf_.back() = 1.0;', 1)], 'pin through back()'),
    ('r_p_rename_member', ['C01', 'C07', 'C10'], [(P, 'dest_', 'target_', 0), (PH, 'dest_', 'target_', 0), (P, 'lock_', 'word_', 0), (PH, 'lock_', 'word_', 0)], 'private members renamed'),
    # (r_p_exchange_move was removed from the refactorings: `dest_ = std::exchange(rhs.dest_, nullptr)` after the release is not
    #  equivalent under self-move-assignment - the guard ends up owning a released lock; it is the mutant p_exchange_selfmove now)
    ('r_p_locks_handwritten_spin', ['C01', 'C08', 'C02'], [(P, '  SpinWithBackoff(\n      [](std::atomic_uint64_t *lock) -> bool {\n        auto cur = lock->load(kRelaxed);\n        return (cur & kXLock) == kNoLocks\n               && lock->compare_exchange_weak(cur, cur + kSLock, kAcquire, kRelaxed);\n      },\n      &lock_);\n  return SGuard{this};', '  while (true) {\n    auto cur = lock_.load(kRelaxed);\n    if ((cur & kXLock) == kNoLocks && lock_.compare_exchange_weak(cur, cur + kSLock, kAcquire, kRelaxed)) break;\n    CPP_UTILITY_SPINLOCK_HINT\n  }\n  return SGuard{this};', 1)], 'hand-written spin instead of the helper'),
    ('r_e_sort_reverse_iter', ['C16', 'C20'], [(E, 'std::sort(protected_epochs.begin(), protected_epochs.end(), std::greater<size_t>{});', 'std::sort(protected_epochs.rbegin(), protected_epochs.rend());', 1)], 'descending sort through reverse iterators'),
    ('r_z_auto_dist', ['C19'], [(ZH, 'thread_local std::uniform_real_distribution<double> uniform_dist{0.0, 1.0};  // NOLINT', 'std::uniform_real_distribution<double> uniform_dist{0.0, 1.0};', 1)], 'automatic distribution object'),
    ('r_p_upgrade_keeps_six', ['C01', 'C10', 'C02'], [(P, 'lock->compare_exchange_weak(cur, kXLock, kAcquire, kRelaxed)', 'lock->compare_exchange_weak(cur, cur | kXLock, kAcquire, kRelaxed)', 1)], 'non-canonical encoding: an upgraded X holder keeps the SIX bit set (every admission test and both X exits still behave the same)'),
    ('r_p_stats_counter', ['C01', 'C07', 'C08'], [(PH, '  std::atomic_uint64_t lock_{0};\n};', '  std::atomic_uint64_t lock_{0};\n\n  /// @brief The number of exclusive acquisitions (statistics only).\n  std::atomic_uint64_t x_count_{0};\n};', 1), (P, '      &lock_);\n  return XGuard{this};', '      &lock_);\n  x_count_.fetch_add(1, kRelaxed);\n  return XGuard{this};', 1)], 'a statistics counter next to the lock word'),
]


VERIF_DIR = os.path.dirname(os.path.dirname(os.path.abspath(__file__)))


def patch_corpora():
    """patch-file corpora: the sub-agent seeds (must be refuted by the checks recorded in their meta.json)
    and the agent-written behaviour-preserving refactorings (must stay silent)"""
    import json
    muts, refs = [], []
    sd = os.path.join(VERIF_DIR, 'seeded')
    for sid in sorted(os.listdir(sd)) if os.path.isdir(sd) else []:
        mp, pp = os.path.join(sd, sid, 'meta.json'), os.path.join(sd, sid, 'patch.diff')
        if os.path.exists(mp) and os.path.exists(pp):
            m = json.load(open(mp))
            props_ = m.get('detected_by') or []
            if props_:
                muts.append(('seed_' + sid, props_, '', [('@patch', pp)], 'seeded change %s (breaks %s)' % (sid, m.get('property'))))
    rd = os.path.join(VERIF_DIR, 'corpus', 'refactors')
    for rid in sorted(os.listdir(rd)) if os.path.isdir(rd) else []:
        pp = os.path.join(rd, rid, 'patch.diff')
        if not os.path.exists(pp):
            continue
        t = open(pp).read()
        ps = set()
        if 'pessimistic_lock' in t or 'optimistic_lock' in t or 'lock/common.hpp' in t:
            ps |= {'C01', 'C02', 'C03', 'C07', 'C08', 'C09', 'C10', 'C13'}
        if 'mcs_lock' in t or 'lock/common.hpp' in t:
            ps |= {'C01', 'C02', 'C07', 'C08', 'C10', 'C11', 'C12'}
        if 'thread/' in t:
            ps |= {'C04', 'C05', 'C14', 'C15', 'C16', 'C17', 'C20'}
        if 'zipf' in t:
            ps |= {'C06', 'C19'}
        note = os.path.join(rd, rid, 'note.txt')
        refs.append(('ref_' + rid, sorted(ps), [('@patch', pp)], (open(note).read().strip()[:100] if os.path.exists(note) else 'agent-written refactoring')))
    return muts, refs


def make_scratch(edits, base=None):
    base = base or BASE_REPO
    d = tempfile.mkdtemp(prefix='cppu-mut-')
    for item in ('CMakeLists.txt', 'include', 'src'):
        s = os.path.join(base, item)
        if os.path.isdir(s):
            shutil.copytree(s, os.path.join(d, item))
        else:
            shutil.copy(s, os.path.join(d, item))
    for ed in edits:
        if ed[0] == '@patch':
            r = subprocess.run('patch -p1 -s -d %s < %s' % (d, ed[1]), shell=True, capture_output=True, text=True)
            if r.returncode != 0:
                shutil.rmtree(d, ignore_errors=True)
                return None, 'patch %s does not apply to the current tree' % ed[1]
            continue
        (f, old, new, occ) = ed
        p = os.path.join(d, f)
        txt = open(p).read()
        c = txt.count(old)
        if c == 0 or (occ == 1 and c != 1):
            shutil.rmtree(d, ignore_errors=True)
            return None, 'anchor text of the edit not found (or not unique) in %s' % f
        txt = txt.replace(old, new)
        open(p, 'w').write(txt)
    return d, None


def compiles(d, files):
    """the mutant must still compile (syntax check with the real flags is enough here)"""
    for f in files:
        if not f.endswith('.cpp'):
            continue
        r = subprocess.run(['g++', '-std=gnu++20', '-fsyntax-only', '-I' + os.path.join(d, 'include'),
                            '-DDBGROUP_MAX_THREAD_NUM=16', '-DCPP_UTILITY_SPINLOCK_RETRY_NUM=10', '-DCPP_UTILITY_BACKOFF_TIME=10',
                            '-DCPP_UTILITY_HAS_SPINLOCK_HINT', os.path.join(d, f)], capture_output=True, text=True)
        if r.returncode != 0:
            return False, r.stderr[-800:]
    return True, ''


def run_one(args):
    """worker: returns dict(id, pid, status, items)"""
    mid, pid, edits = args
    import main as MAIN
    d, why = make_scratch(edits)
    if d is None:
        return {'id': mid, 'pid': pid, 'status': 'skipped', 'why': why}
    try:
        srcs = sorted({e[0] for e in edits if e[0] != '@patch' and e[0].endswith('.cpp')}) or []
        allsrc = [os.path.join(dp, f)[len(d) + 1:] for dp, _, fs in os.walk(os.path.join(d, 'src')) for f in fs if f.endswith('.cpp')]
        ok, err = compiles(d, srcs if srcs else allsrc)
        if not ok:
            return {'id': mid, 'pid': pid, 'status': 'nocompile', 'why': err}
        rep = MAIN.run_property(pid, 'quick', repo=d, quiet=True)
        import report as REPORT
        known = {f['key'] for f in REPORT.load_known()[0] if f['property'] == pid}
        viol = [o for o in rep.obligations if o['status'] == 'violated' and ('%s %s' % (o['rule'], o['key'])) not in known]
        return {'id': mid, 'pid': pid, 'status': 'violated' if viol else ('broken' if rep.broken else 'silent'),
                'rules': sorted({o['rule'] for o in viol}), 'broken': rep.broken[:3],
                'first': ['%s %s @%s: %s' % (o['rule'], o['key'], o['loc'].replace(d, ''), o['detail'][:200]) for o in viol[:3]]}
    finally:
        shutil.rmtree(d, ignore_errors=True)


def run_corpus(pids=None, only=None, workers=16):
    jobs = []
    pm, pr = patch_corpora()
    for (mid, props_, rule, edits, desc) in MUTANTS + pm:
        for pid in props_:
            if (pids is None or pid in pids) and (only is None or mid in only):
                jobs.append(('M', mid, pid, rule, edits, desc))
    for (mid, props_, edits, desc) in REFACTORS + pr:
        for pid in props_:
            if (pids is None or pid in pids) and (only is None or mid in only):
                jobs.append(('R', mid, pid, None, edits, desc))
    out = []
    with concurrent.futures.ProcessPoolExecutor(max_workers=workers) as ex:
        for job, res in zip(jobs, ex.map(run_one, [(j[1], j[2], j[4]) for j in jobs])):
            kind, mid, pid, rule, edits, desc = job
            res.update(kind=kind, rule=rule, desc=desc)
            if res['status'] in ('skipped', 'nocompile'):
                res['verdict'] = 'skipped'
            elif kind == 'M':
                hit = res['status'] == 'violated' and any(r.startswith(rule) for r in res['rules'])
                res['verdict'] = 'caught' if hit else ('missed' if res['status'] != 'broken' else 'unsupported')
            else:
                res['verdict'] = 'silent' if res['status'] in ('silent', 'broken') else 'noisy'
            out.append(res)
    return out


if __name__ == '__main__':
    pids = None
    only = None
    for a in sys.argv[1:]:
        if a.startswith('C'):
            pids = (pids or []) + [a]
        else:
            only = (only or []) + [a]
    for r in run_corpus(pids, only):
        print('%-9s %s %-26s %-4s %-10s %s %s' % (r['verdict'], r['kind'], r['id'], r['pid'], r['status'], r.get('rules', ''), (r.get('why') or '')[:300]))
        for f in r.get('first', [])[:2]:
            print('            ', f[:260])
        for b in r.get('broken', [])[:2]:
            print('             BROKEN', b[:260])
