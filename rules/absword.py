"""Field-abstract evaluator for 64-bit lock words (DESIGN.md 2.2 'known bits per field').

A lock word is abstracted into the fields the protocol uses:

    X    one bit        (the bit the exclusive acquire sets)
    SIX  one bit        (the bit the SIX acquire sets)
    S    counter field  [unit bit, SIX bit)   abstract values: intervals over {0,1,2,3+}
    rest [0, unit bit)  version (Optimistic) / node pointer (MCS) / empty (Pessimistic);
                        abstract values: constant, named symbol, 'other' (different from every
                        named value and from 0), unknown

Expressions extracted by pathsim are evaluated over *cells* (one abstract word per base
symbol).  Every result is three-valued: a predicate that cannot be decided on a cell is
`None`; rules treat None soundly (a pass with None counted as possible is still a pass; a
failure that depends on a None is reported as unsupported, never as a violation).
"""
import itertools
from pathsim import show, symbols, is_const

INF = 10 ** 9


class Layout:
    def __init__(self, xbit, sixbit, unit_bit):
        self.xbit, self.sixbit, self.ubit = xbit, sixbit, unit_bit
        self.ok = (xbit == 63 and sixbit == 62 and 0 <= unit_bit < 62)
        self.X = 1 << xbit
        self.SIX = 1 << sixbit
        self.UNIT = 1 << unit_bit
        self.SMASK = ((1 << sixbit) - 1) ^ (self.UNIT - 1)
        self.RMASK = self.UNIT - 1
        self.rest_bits = unit_bit

    def describe(self):
        return 'X=bit%d SIX=bit%d S=[bit%d,bit%d) rest=[0,bit%d)' % (self.xbit, self.sixbit, self.ubit, self.sixbit, self.ubit)


class W:
    """abstract word"""
    __slots__ = ('x', 'six', 's', 'rest', 'raw')

    def __init__(self, x=None, six=None, s=None, rest=None, raw=None):
        self.x, self.six, self.s, self.rest, self.raw = x, six, s, rest, raw

    def key(self):
        return (self.x, self.six, self.s, self.rest)

    def __repr__(self):
        def f(v):
            return '?' if v is None else str(v)
        s = '?' if self.s is None else ('%d' % self.s[0] if self.s[0] == self.s[1] else '%d+' % self.s[0] if self.s[1] >= INF else '%d..%d' % self.s)
        r = '?' if self.rest is None else (hex(self.rest[1]) if self.rest[0] == 'c' else self.rest[1] if self.rest[0] == 'sym' else 'other')
        return 'X=%s SIX=%s S=%s rest=%s' % (f(self.x), f(self.six), s, r)


UNKNOWN = W()


def t_and(a, b):
    if a is False or b is False:
        return False
    if a is None or b is None:
        return None
    return True


def t_or(a, b):
    if a is True or b is True:
        return True
    if a is None or b is None:
        return None
    return False


def t_not(a):
    return None if a is None else (not a)


class Eval:
    def __init__(self, layout, rest_kind='pointer'):
        # rest_kind 'pointer': the rest field holds 0 or an object address (MCS): tokens are
        #   0, the named addresses (all non-null and pairwise distinct or equal by name), other
        # rest_kind 'version': the rest field holds an arbitrary value (Optimistic): tokens are
        #   "equal to the named value" and other (= different from every named value); nothing is
        #   known about 0
        self.L = layout
        self.rest_kind = rest_kind
        self.partial = False

    # ---- constructors
    def const(self, v):
        L = self.L
        v &= (1 << 64) - 1
        cnt = (v & L.SMASK) >> L.ubit
        return W((v >> L.xbit) & 1, (v >> L.sixbit) & 1, (cnt, cnt), ('c', v & L.RMASK), raw=v)

    def low_sym(self, name, nonzero=False):
        return W(0, 0, (0, 0), ('sym', name, nonzero))

    # ---- per-field helpers
    def _rest_eq(self, a, b):
        if a is None or b is None:
            return None
        if a[0] == 'c' and b[0] == 'c':
            return a[1] == b[1]
        if a[0] == 'other' or b[0] == 'other':
            if a[0] == 'other' and b[0] == 'other':
                return None
            o = b if a[0] == 'other' else a
            if o[0] == 'c' and (self.rest_kind != 'pointer' or o[1] != 0):
                return None
            return False
        if a[0] == 'sym' and b[0] == 'sym':
            return True if a[1] == b[1] else None
        sym, c = (a, b) if a[0] == 'sym' else (b, a)
        if c[0] == 'c' and c[1] == 0 and sym[2]:
            return False
        return None

    def _rest_nonzero(self, r):
        if r is None:
            return None
        if r[0] == 'c':
            return r[1] != 0
        if r[0] == 'other':
            return True if self.rest_kind == 'pointer' else None
        return True if r[2] else None

    @staticmethod
    def _s_eq(a, b):
        if a is None or b is None:
            return None
        if a[0] == a[1] and b[0] == b[1]:
            return a[0] == b[0]
        if a[1] < b[0] or b[1] < a[0]:
            return False
        return None

    def eq(self, a, b):
        r = True
        for fa, fb in ((a.x, b.x), (a.six, b.six)):
            r = t_and(r, None if (fa is None or fb is None) else fa == fb)
        r = t_and(r, self._s_eq(a.s, b.s))
        if self.L.rest_bits > 0:
            r = t_and(r, self._rest_eq(a.rest, b.rest))
        return r

    def rel(self, op, a, b):
        """unsigned order comparison of two abstract words: lexicographic over (X, SIX, S count, rest); decided when
        a higher field already differs, or when all higher fields are equal and the rest fields are comparable"""
        if None in (a.x, a.six, b.x, b.six) or a.s is None or b.s is None:
            return None
        hi_a, hi_b = (a.x, a.six), (b.x, b.six)
        if hi_a != hi_b:
            c = (hi_a > hi_b) - (hi_a < hi_b)
            return {'<': c < 0, '>': c > 0, '<=': c <= 0, '>=': c >= 0}[op]
        # shared-holder counts: ranges [lo, hi]
        if a.s[1] < b.s[0]:
            return {'<': True, '>': False, '<=': True, '>=': False}[op]
        if b.s[1] < a.s[0]:
            return {'<': False, '>': True, '<=': False, '>=': True}[op]
        if a.s != b.s or a.s[0] != a.s[1]:
            return None
        ra, rb = a.rest, b.rest
        if ra is None or rb is None:
            return None
        if ra[0] == 'c' and rb[0] == 'c':
            c = (ra[1] > rb[1]) - (ra[1] < rb[1])
        elif ra[0] == 'sym' and rb[0] == 'sym' and ra[1] == rb[1]:
            c = 0
        elif ra[0] == 'other' and len(ra) > 1 and rb[0] == 'sym':
            c = -1 if ra[1] == 'lo' else 1
        elif rb[0] == 'other' and len(rb) > 1 and ra[0] == 'sym':
            c = 1 if rb[1] == 'lo' else -1
        else:
            return None
        return {'<': c < 0, '>': c > 0, '<=': c <= 0, '>=': c >= 0}[op]

    def ne0(self, a):
        r = False
        for f in (a.x, a.six):
            r = t_or(r, None if f is None else f == 1)
        r = t_or(r, None if a.s is None else (True if a.s[0] > 0 else (False if a.s[1] == 0 else None)))
        if self.L.rest_bits > 0:
            r = t_or(r, self._rest_nonzero(a.rest))
        return r

    # ---- bitwise / arithmetic, b constant (raw known) or abstract
    def _bit(self, raw, pos):
        return (raw >> pos) & 1

    def band(self, a, b):
        if a.raw is not None and b.raw is not None:
            return self.const(a.raw & b.raw)
        if b.raw is None and a.raw is not None:
            a, b = b, a
        L = self.L
        if b.raw is not None:
            k = b.raw
            x = a.x if self._bit(k, L.xbit) else 0
            six = a.six if self._bit(k, L.sixbit) else 0
            ks = k & L.SMASK
            if ks == L.SMASK:
                s = a.s
            elif ks == 0 or a.s == (0, 0):
                s = (0, 0)
            elif a.s is not None and a.s[0] == a.s[1]:
                # exact count and a partial mask: evaluate the bits
                v = ((a.s[0] << L.ubit) & ks) >> L.ubit
                s = (v, v)
            else:
                s = None
            kr = k & L.RMASK
            if kr == L.RMASK:
                rest = a.rest
            elif kr == 0:
                rest = ('c', 0)
            elif a.rest is not None and a.rest[0] == 'c':
                rest = ('c', a.rest[1] & kr)
            else:
                rest = None
            return W(x, six, s, rest)

        def fl(p, q):
            if p == 0 or q == 0:
                return 0
            return None if (p is None or q is None) else p & q
        s = (0, 0) if (a.s == (0, 0) or b.s == (0, 0)) else None
        rest = ('c', 0) if (a.rest == ('c', 0) or b.rest == ('c', 0)) else None
        return W(fl(a.x, b.x), fl(a.six, b.six), s, rest)

    def bor(self, a, b):
        if a.raw is not None and b.raw is not None:
            return self.const(a.raw | b.raw)

        def fl(p, q):
            if p == 1 or q == 1:
                return 1
            return None if (p is None or q is None) else p | q

        def cnt(p, q):
            if q == (0, 0):
                return p
            if p == (0, 0):
                return q
            if p is not None and q is not None and p[0] == p[1] and q[0] == q[1]:
                v = p[0] | q[0]          # exact counts: bitwise or of the two field values
                return (v, v) if v < 3 else (3, INF)
            return None

        def rs(p, q):
            if q == ('c', 0):
                return p
            if p == ('c', 0):
                return q
            if p is not None and q is not None and p[0] == 'c' and q[0] == 'c':
                return ('c', p[1] | q[1])
            return None
        return W(fl(a.x, b.x), fl(a.six, b.six), cnt(a.s, b.s), rs(a.rest, b.rest))

    def bxor(self, a, b):
        if a.raw is not None and b.raw is not None:
            return self.const(a.raw ^ b.raw)

        def fl(p, q):
            return None if (p is None or q is None) else p ^ q

        def cnt(p, q):
            if q == (0, 0):
                return p
            if p == (0, 0):
                return q
            if p is not None and q is not None and p[0] == p[1] and q[0] == q[1]:
                v = p[0] ^ q[0]
                return (v, v)
            return None

        def rs(p, q):
            if q == ('c', 0):
                return p
            if p == ('c', 0):
                return q
            if p is None or q is None:
                return None
            if p[0] == 'c' and q[0] == 'c':
                return ('c', p[1] ^ q[1])
            if p[0] == 'sym' and q[0] == 'sym' and p[1] == q[1]:
                return ('c', 0)
            return None
        return W(fl(a.x, b.x), fl(a.six, b.six), cnt(a.s, b.s), rs(a.rest, b.rest))

    def add(self, a, b, _neg=False):
        """a + b; counter overflow out of the S field is an explicit assumption (never happens)"""
        if a.raw is not None and b.raw is not None:
            return self.const(a.raw + b.raw)
        d = self.flag_minus_units(b.raw) if a.raw is None else None
        if d is not None:
            return self.sub(self.add(a, self.const(d[0])), self.const(d[1]))
        if b.raw is not None and b.raw >= (1 << 63) and not _neg:
            # adding a two's complement: subtract the magnitude instead
            return self.sub(a, self.const((1 << 64) - b.raw), _neg=True)
        if a.raw is not None and a.raw >= (1 << 63) and not _neg:
            return self.sub(b, self.const((1 << 64) - a.raw), _neg=True)
        width = self.L.sixbit - self.L.ubit
        for w in (a, b):
            if w.s is not None and w.raw is not None and w.s[0] > (1 << (width - 1)):
                return W()
        # rest
        if b.rest == ('c', 0):
            rest, carry = a.rest, 0
        elif a.rest == ('c', 0):
            rest, carry = b.rest, 0
        else:
            return W()
        if a.s is None or b.s is None:
            return W(None, None, None, rest)
        s = (a.s[0] + b.s[0], min(INF, a.s[1] + b.s[1]))
        # flags with carry chain SIX -> X
        if a.six is None or b.six is None:
            return W(None, None, s, rest)
        t = a.six + b.six
        six, c = t & 1, t >> 1
        if a.x is None or b.x is None:
            return W(None, six, s, rest)
        x = (a.x + b.x + c) & 1
        return W(x, six, s, rest)

    def flag_minus_units(self, k):
        """k = F - j * unit with F a flag bit (SIX or X) and j a small count: (F, j), else None.  Such a constant exchanges a flag
        for j shared grants in one addition / subtraction (w - (kSIXLock - kSLock) clears SIX and adds one to the count)."""
        if k is None or k <= 0:
            return None
        for fb in (self.L.sixbit, self.L.xbit):
            for j in (1, 2, 3):
                if k + (j << self.L.ubit) == (1 << fb):
                    return (1 << fb, j << self.L.ubit)
        return None

    def sub(self, a, b, _neg=False):
        if a.raw is not None and b.raw is not None:
            return self.const(a.raw - b.raw)
        d = self.flag_minus_units(b.raw) if a.raw is None else None
        if d is not None:
            return self.add(self.sub(a, self.const(d[0])), self.const(d[1]))
        if b.raw is not None and b.raw >= (1 << 63) and not _neg:
            return self.add(a, self.const((1 << 64) - b.raw), _neg=True)
        if b.rest is not None and b.rest[0] == 'c' and b.rest[1] != 0 and a.rest is not None and a.rest[0] == 'other' \
                and self.rest_kind == 'version' and b.x == 0 and b.six == 0 and b.s == (0, 0):
            # a small constant subtracted from an arbitrary non-zero low field: the no-borrow outcome is
            # attainable (flags unchanged, low field changed); the borrow outcome is not evaluated
            self.partial = True
            return W(a.x, a.six, a.s, None)
        if b.rest == ('c', 0):
            rest, borrow = a.rest, 0
        elif a.rest is not None and b.rest is not None and a.rest[0] == 'c' and b.rest[0] == 'c' and a.rest[1] >= b.rest[1]:
            rest, borrow = ('c', a.rest[1] - b.rest[1]), 0
        elif a.rest is not None and b.rest is not None and a.rest[0] == 'sym' and a.rest == b.rest:
            rest, borrow = ('c', 0), 0
        else:
            return W()
        if a.s is None or b.s is None or b.s[0] != b.s[1]:
            return W(None, None, None, rest)
        k = b.s[0]
        if a.s[0] >= k:
            s = (a.s[0] - k, a.s[1] - k if a.s[1] < INF else INF)
            bw = 0
        elif a.s[1] < k:
            return W(None, None, None, rest)   # certain underflow: borrows from the flags
        else:
            return W(None, None, None, rest)
        if a.six is None or b.six is None:
            return W(None, None, s, rest)
        t = a.six - b.six - bw
        six, bw2 = t & 1, 1 if t < 0 else 0
        if a.x is None or b.x is None:
            return W(None, six, s, rest)
        x = (a.x - b.x - bw2) & 1
        return W(x, six, s, rest)

    def bnot(self, a):
        if a.raw is not None:
            return self.const(~a.raw)
        return W(None if a.x is None else 1 - a.x, None if a.six is None else 1 - a.six, None, None)

    # ---- expression evaluation
    def ev(self, v, env):
        """returns W for integer expressions, True/False/None for boolean ones"""
        if not isinstance(v, tuple) or not v:
            return UNKNOWN
        k = v[0]
        if k == 'c':
            if v[2] == 1:
                return bool(v[1])
            return self.const(v[1])
        if k == 's':
            if v in env:
                return env[v]
            if v[2] == 1:
                return None
            if v[2] <= self.L.rest_bits:
                return self.low_sym(v[1])
            return UNKNOWN
        if k == 'ptrint':
            inner = v[1]
            if isinstance(inner, tuple) and inner and inner[0] in ('op', 'c', 'ptrint'):
                return self.ev(inner, env)
            if inner in env:
                return env[inner]
            return self.low_sym(show(inner), nonzero=True)
        if k == 'ne0':
            x = self.ev(v[1], env)
            return self.ne0(x) if isinstance(x, W) else x
        if k == 'not':
            return t_not(self.tri(v[1], env))
        if k == 'ext':
            if v[3]:
                return UNKNOWN
            return self.ev(v[1], env)
        if k == 'trunc':
            a = self.ev(v[1], env)
            if not isinstance(a, W):
                return UNKNOWN
            if a.raw is not None:
                return self.const(a.raw & ((1 << v[2]) - 1))
            if v[2] == self.L.rest_bits:
                return W(0, 0, (0, 0), a.rest)
            if v[2] < self.L.rest_bits:
                return W(0, 0, (0, 0), None)
            return UNKNOWN
        if k == 'bnot':
            a = self.ev(v[1], env)
            return self.bnot(a) if isinstance(a, W) else UNKNOWN
        if k == 'op':
            nv = self.normalise_cmp(v)
            if nv is not v:
                return self.ev(nv, env)
            op = v[1]
            if op in ('&&', '||'):
                a, b = self.tri(v[2], env), self.tri(v[3], env)
                return t_and(a, b) if op == '&&' else t_or(a, b)
            a, b = self.ev(v[2], env), self.ev(v[3], env)
            if op in ('==', '!='):
                if not isinstance(a, W) or not isinstance(b, W):
                    if isinstance(a, W) or isinstance(b, W):
                        # comparison of a word with a boolean: treat the boolean as 0/1 unknown
                        return None
                    if a is None or b is None:
                        return None
                    return (a == b) if op == '==' else (a != b)
                r = self.eq(a, b)
                return r if op == '==' else t_not(r)
            if op in ('<', '>', '<=', '>='):
                if isinstance(a, W) and isinstance(b, W) and a.raw is not None and b.raw is not None:
                    return {'<': a.raw < b.raw, '>': a.raw > b.raw, '<=': a.raw <= b.raw, '>=': a.raw >= b.raw}[op]
                if isinstance(a, W) and isinstance(b, W):
                    return self.rel(op, a, b)
                return None
            if not isinstance(a, W) or not isinstance(b, W):
                return UNKNOWN
            if v[4] != 64:
                if a.raw is not None and b.raw is not None:
                    m = (1 << v[4]) - 1
                    try:
                        return self.const({'+': a.raw + b.raw, '-': a.raw - b.raw, '&': a.raw & b.raw,
                                           '|': a.raw | b.raw, '^': a.raw ^ b.raw}[op] & m)
                    except KeyError:
                        return UNKNOWN
                # narrow arithmetic: stays inside the low bits if the width fits the rest field
                if v[4] <= self.L.rest_bits and op in ('+', '-', '&', '|', '^'):
                    return W(0, 0, (0, 0), None)
                return UNKNOWN
            if op == '&':
                return self.band(a, b)
            if op == '|':
                return self.bor(a, b)
            if op == '^':
                return self.bxor(a, b)
            if op == '+':
                return self.add(a, b)
            if op == '-':
                return self.sub(a, b)
            return UNKNOWN
        return UNKNOWN

    M64 = (1 << 64) - 1

    def normalise_cmp(self, v):
        """order comparisons with a power of two and tests of a right-shifted value are mask tests in disguise
        (for unsigned 64-bit x):   x < 2^k  <=>  (x >> k) == 0  <=>  (x & ~(2^k - 1)) == 0 ;  x >= 2^k  <=>  ... != 0 ;
        x <= 2^k - 1 and x > 2^k - 1 likewise.  Returns the rewritten expression, or v itself."""
        op, a, b = v[1], v[2], v[3]

        def isc(x):
            return isinstance(x, tuple) and x and x[0] == 'c' and x[2] != 1

        def mask_test(x, k, eq):
            m = self.M64 ^ ((1 << k) - 1)
            return ('op', '==' if eq else '!=', ('op', '&', x, ('c', m, 64), 64), ('c', 0, 64), 1)
        if op in ('<', '<=', '>', '>='):
            if isc(a) and not isc(b):
                a, b, op = b, a, {'<': '>', '>': '<', '<=': '>=', '>=': '<='}[op]
            if isc(b) and not isc(a) and isinstance(a, tuple) and (a[0] != 's' or a[2] == 64) and (len(a) < 5 or a[0] != 'op' or a[4] == 64):
                kk = b[1]
                bound = kk if op in ('<', '>=') else kk + 1       # x < bound  /  x >= bound
                if bound > 0 and bound & (bound - 1) == 0 and bound.bit_length() - 1 >= self.L.ubit:
                    return mask_test(a, bound.bit_length() - 1, op in ('<', '<='))
                if bound == 1:
                    return ('op', '==' if op in ('<', '<=') else '!=', a, ('c', 0, 64), 1)
        if op in ('==', '!='):
            for x, y in ((a, b), (b, a)):
                if isc(y) and y[1] == 0 and isinstance(x, tuple) and x and x[0] == 'op' and x[1] == '>>' and isc(x[3]) and x[4] == 64 and 0 < x[3][1] < 64:
                    return mask_test(x[2], x[3][1], op == '==')
                # ((p ^ q) & M) == 0  <=>  (p & M) == (q & M) ;  (p ^ q) == 0  <=>  p == q
                if isc(y) and y[1] == 0 and isinstance(x, tuple) and x and x[0] == 'op' and x[1] == '&' and x[4] == 64:
                    for u, m in ((x[2], x[3]), (x[3], x[2])):
                        if isc(m) and isinstance(u, tuple) and u and u[0] == 'op' and u[1] == '^' and u[4] == 64:
                            return ('op', op, ('op', '&', u[2], m, 64), ('op', '&', u[3], m, 64), 1)
                if isc(y) and y[1] == 0 and isinstance(x, tuple) and x and x[0] == 'op' and x[1] == '^' and x[4] == 64 and not isc(x[2]) and not isc(x[3]):
                    return ('op', op, x[2], x[3], 1)
        return v

    def tri(self, v, env):
        x = self.ev(v, env)
        if isinstance(x, W):
            return self.ne0(x)
        return x

    # ---- cells
    def cells(self, tokens):
        L = self.L
        rests = [('c', 0)]
        if L.rest_bits > 0:
            rests = list(tokens)
        out = []
        for x, six, s, r in itertools.product((0, 1), (0, 1), getattr(self, 's_cells', ((0, 0), (1, 1), (2, 2), (3, INF))), rests):
            out.append(W(x, six, s, r))
        return out

    def tokens_for(self, values, extra=()):
        """rest-field tokens: 0, every named low symbol / pointer occurring in `values`, other"""
        toks = [('c', 0)] if self.rest_kind == 'pointer' else []
        seen = set()

        def walk(v):
            if not isinstance(v, tuple) or not v:
                return
            if v[0] == 'ptrint':
                inner = v[1]
                if not (isinstance(inner, tuple) and inner and inner[0] in ('op', 'c', 'ptrint')):
                    t = ('sym', show(inner), True)
                    if t not in seen:
                        seen.add(t)
                        toks.append(t)
                    return
            if v[0] == 's' and v[2] != 1 and v[2] <= self.L.rest_bits:
                t = ('sym', v[1], False)
                if t not in seen:
                    seen.add(t)
                    toks.append(t)
                return
            for x in v:
                if isinstance(x, tuple):
                    walk(x)
        for v in values:
            walk(v)
        for t in extra:
            if t not in seen:
                seen.add(t)
                toks.append(t)
        named = [t for t in toks if t[0] == 'sym']
        if self.rest_kind == 'version' and len(named) == 1:
            # one named value: split "other" into below / above it so that order comparisons are decided
            toks.append(('other', 'lo'))
            toks.append(('other', 'hi'))
        else:
            toks.append(('other',))
        return toks


def feasible_envs(ev, syms, conds, tokens, pre=None, limit=200000):
    """all assignments of cells to `syms` under which no condition is definitely violated.
    conds: list of (value, outcome).  pre: dict sym -> predicate(W) restricting cells.
    yields (env, undecided) where undecided lists the conditions that evaluated to None.
    Backtracking: a condition is evaluated as soon as all of its symbols are assigned."""
    cells = ev.cells(tokens)
    syms = list(syms)
    doms = []
    for s in syms:
        d = cells
        if pre and s in pre and pre[s] is not None:
            d = [c for c in cells if pre[s](c)]
        doms.append(d)
    symset = set(syms)
    # conditions grouped by the position of their last symbol in the assignment order
    pos = {s: i for i, s in enumerate(syms)}
    by_level = [[] for _ in syms]
    free = []
    for (c, outcome) in conds:
        ss = symbols(c) & symset
        if ss:
            by_level[max(pos[x] for x in ss)].append((c, outcome))
        else:
            free.append((c, outcome))
    und0 = []
    for (c, outcome) in free:
        r = ev.tri(c, {})
        if r is None:
            und0.append(c)
        elif r != outcome:
            return
    count = [0]

    def rec(i, env, und):
        if i == len(syms):
            yield dict(env), list(und)
            return
        s = syms[i]
        for cell in doms[i]:
            count[0] += 1
            if count[0] > limit * 4:
                raise OverflowError('too many cells')
            env[s] = cell
            okay = True
            added = 0
            for (c, outcome) in by_level[i]:
                r = ev.tri(c, env)
                if r is None:
                    und.append(c)
                    added += 1
                elif r != outcome:
                    okay = False
                    break
            if okay:
                yield from rec(i + 1, env, und)
            for _ in range(added):
                und.pop()
        env.pop(s, None)
    yield from rec(0, {}, und0)
