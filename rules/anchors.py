"""Which functions are analysed on their own (anchors) and which are helpers whose bodies are analysed in
their callers' context.  Anchors are the public API functions the properties talk about, the special member
functions of the guard / manager classes, and the release functions the guards call; every other function
defined in the repository is a helper."""

API = {'LockS', 'LockSIX', 'LockX', 'TryLockS', 'TryLockSIX', 'TryLockX', 'PrepareRead', 'GetVersion', 'VerifyVersion', 'SetVersion',
       'UpgradeToX', 'DowngradeToSIX',
       'GetThreadID', 'GetHeartBeat', 'GetHeartBeater', 'HasID', 'GetID', 'SetID',
       'GetCurrentEpoch', 'GetMinEpoch', 'GetProtectedEpochs', 'CreateEpochGuard', 'ForwardGlobalEpoch', 'CollectProtectedEpochs',
       'RemoveOutDatedLists', 'EnterEpoch', 'LeaveEpoch', 'GetProtectedEpoch', 'SetGrobalEpoch', 'GetUpperBits',
       'GetCDF', 'GetHarmonicNum', 'UpdateCDF'}


import re as _re

# the classes the properties talk about (and their nested guard / node / slot classes): API names are anchors only there,
# a helper class that happens to have a member called GetVersion is an ordinary helper
_API_CLASS = _re.compile(r'(^|::)(PessimisticLock|OptimisticLock|MCSLock|IDManager|EpochManager|EpochGuard|Epoch|ZipfDistribution|'
                         r'ApproxZipfDistribution)(<[^:]*>)?(::\w+)*$')


def _api_record(rec):
    return bool(rec) and '(anonymous namespace)' not in rec and bool(_API_CLASS.search(rec))


def _calls(node, out):
    if isinstance(node, dict):
        if node.get('k') in ('mcall', 'call', 'opcall') and node.get('callee'):
            out.append((node.get('callee'), node.get('record')))
        for v in node.values():
            _calls(v, out)
    elif isinstance(node, list):
        for v in node:
            _calls(v, out)


def compute(fx):
    anchors = set()
    fns = fx.functions
    for k, f in fns.items():
        if f.get('kind') in ('ctor', 'dtor', 'conversion', 'lambda') or f.get('move_assign') or f.get('copy_assign'):
            anchors.add(k)
        elif f.get('short') in API and (_api_record(f.get('record')) or not f.get('record')):
            anchors.add(k)
        elif f.get('short', '').startswith('operator'):
            anchors.add(k)
    # release functions: lock-class methods reached from a guard's destructor / move assignment through guard helpers
    for k, f in fns.items():
        rec = f.get('record') or ''
        if not (f.get('kind') == 'dtor' or f.get('move_assign')) or '::lock::' not in rec:
            continue
        lockcls = rec.rsplit('::', 1)[0]
        seen, todo, depth = set(), [k], 0
        while todo and depth < 4:
            nxt = []
            for key in todo:
                g = fns.get(key)
                if g is None or key in seen:
                    continue
                seen.add(key)
                out = []
                for b in g.get('blocks', []):
                    for e in b['elems']:
                        _calls(e.get('e'), out)
                for callee, crec in out:
                    if crec == lockcls:
                        anchors.add(callee)
                    elif crec and crec.startswith(lockcls + '::') and callee not in anchors:
                        nxt.append(callee)
            todo, depth = nxt, depth + 1
    return anchors
