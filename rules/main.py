"""check driver: extraction, dispatch, evidence"""
import argparse
import os
import sys
import traceback

import facts as F
from facts import AnalysisBroken
from pathsim import Engine
from report import Report

LOCK_TUS = ['pessimistic_lock.cpp', 'optimistic_lock.cpp', 'mcs_lock.cpp']
THREAD_TUS = ['id_manager.cpp', 'epoch_manager.cpp', 'epoch_guard.cpp', 'epoch.cpp']
ZIPF_TUS = ['zipf.cpp', 'verif_driver.cpp']

NEEDS = {
    'C01': LOCK_TUS, 'C02': LOCK_TUS, 'C03': ['optimistic_lock.cpp'], 'C07': LOCK_TUS + ['verif_driver.cpp'],
    'C08': LOCK_TUS, 'C09': ['optimistic_lock.cpp', 'verif_driver.cpp'], 'C10': LOCK_TUS, 'C11': ['mcs_lock.cpp'],
    'C12': ['mcs_lock.cpp'], 'C13': ['optimistic_lock.cpp'],
    'C04': THREAD_TUS, 'C05': ['id_manager.cpp', 'epoch_manager.cpp'], 'C14': ['id_manager.cpp', 'epoch_manager.cpp'], 'C15': ['id_manager.cpp', 'epoch_manager.cpp'],
    'C16': THREAD_TUS, 'C17': THREAD_TUS, 'C20': THREAD_TUS,
    'C06': ZIPF_TUS, 'C19': ZIPF_TUS,
}


CURRENT_REPO = None


def run_property(pid, tier, repo=None, quiet=False, extra_defs=(), cmake_defs=(), configs=True):
    global CURRENT_REPO
    rep = Report(pid, tier)
    if repo:
        CURRENT_REPO = repo
    try:
        if pid not in NEEDS:
            raise AnalysisBroken('no check implemented for %s' % pid)
        fx = F.extract(NEEDS[pid], extra_defs=extra_defs, cmake_defs=cmake_defs, repo=repo)
        eng = Engine(fx)
        import props
        getattr(props, 'check_' + pid)(fx, eng, rep, tier)
        if configs:
            import thorough
            thorough.run_configs(pid, rep, thorough.QUICK_CONFIGS.get(pid, []))
    except AnalysisBroken as e:
        rep.broken.append(str(e))
    except Exception as e:  # an internal error of the checker is analysis-broken, never a violation
        rep.broken.append('internal error: %s: %s' % (type(e).__name__, e))
        if os.environ.get('VERIF_DEBUG'):
            traceback.print_exc()
    return rep


def main(argv):
    ap = argparse.ArgumentParser()
    ap.add_argument('pid')
    ap.add_argument('--tier', default=os.environ.get('VERIF_TIER', 'quick'))
    ap.add_argument('--repo', default=None)
    ap.add_argument('--replay', default=None)
    a = ap.parse_args(argv)
    if a.replay:
        print(open(a.replay).read())
        return 0
    seed = int(os.environ.get('VERIF_SEED', '0') or 0)
    rep = run_property(a.pid, a.tier, a.repo)
    if a.tier == 'thorough' and not rep.broken:
        import thorough
        thorough.extend(a.pid, rep)
    return rep.finish(seed)
