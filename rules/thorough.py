"""thorough tier: the quick obligations plus (a) the mutant corpus of the property (every
mutant must be refuted), (b) the refactor corpus (must stay silent), (c) alternative
configurations.  A miss here is a defect of the checker: ANALYSIS-BROKEN, never a violation."""
import mutants


def extend(pid, rep):
    res = mutants.run_corpus([pid])
    caught = [r for r in res if r['verdict'] == 'caught']
    missed = [r for r in res if r['verdict'] in ('missed', 'unsupported')]
    noisy = [r for r in res if r['verdict'] == 'noisy']
    skipped = [r for r in res if r['verdict'] == 'skipped']
    silent = [r for r in res if r['verdict'] == 'silent']
    rep.extra['mutant_corpus'] = {'caught': [r['id'] for r in caught], 'missed': [r['id'] for r in missed],
                                  'refactors_silent': [r['id'] for r in silent], 'refactors_noisy': [r['id'] for r in noisy],
                                  'skipped': [(r['id'], r.get('why', '')[:120]) for r in skipped]}
    for r in caught:
        rep.ok('CORPUS.MUTANT', '%s refuted (%s)' % (r['id'], ','.join(r.get('rules', []))), 'scratch copy', r['desc'])
    for r in silent:
        rep.ok('CORPUS.REFACTOR', '%s silent' % r['id'], 'scratch copy', r['desc'])
    for r in missed:
        rep.broken.append('checker defect: mutant %s (%s) not refuted' % (r['id'], r['desc']))
    for r in noisy:
        rep.broken.append('checker defect: refactor %s (%s) reported as a violation: %s' % (r['id'], r['desc'], r.get('first')))
