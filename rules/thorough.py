"""thorough tier: the quick obligations plus
 (a) alternative configurations of the build (the properties quantify over configurations):
     the whole rule set is re-run on facts extracted with other capacities / spin settings;
     a violation there is a violation of /repo,
 (b) the mutant corpus of the property (every mutant must be refuted) and
 (c) the refactor corpus (must stay silent).
A miss in (b)/(c) is a defect of the checker: ANALYSIS-BROKEN, never a violation of /repo."""
import mutants

THREAD = ('C04', 'C05', 'C14', 'C15', 'C16', 'C17', 'C20')
LOCKS = ('C01', 'C02', 'C03', 'C07', 'C08', 'C09', 'C10', 'C11', 'C12', 'C13')

CONFIGS = {}
for p in THREAD:
    CONFIGS[p] = [('capacity 1', ['DBGROUP_MAX_THREAD_NUM=1']), ('capacity 2', ['DBGROUP_MAX_THREAD_NUM=2']),
                  ('capacity 3', ['DBGROUP_MAX_THREAD_NUM=3']), ('capacity 256', ['DBGROUP_MAX_THREAD_NUM=256'])]
for p in LOCKS:
    CONFIGS[p] = [('no spin retries', ['CPP_UTILITY_SPINLOCK_RETRY_NUM=0'])]
# configurations that are part of the quick tier as well: the build without the spin-lock hint (what CMake selects on a
# machine without <x86intrin.h>) compiles CPP_UTILITY_SPINLOCK_HINT to nothing, which changes the statement structure
QUICK_CONFIGS = {p: [('no spinlock hint', ['CPP_UTILITY_HAS_SPINLOCK_HINT=OFF'])] for p in LOCKS}
# progress depends on the spin helper calling its predicate for every legitimate retry number, 0 ("try once, then back off")
# included: that configuration is part of the quick tier of C02
QUICK_CONFIGS['C02'] = QUICK_CONFIGS['C02'] + [('no spin retries', ['CPP_UTILITY_SPINLOCK_RETRY_NUM=0'])]


def run_configs(pid, rep, configs):
    import main as MAIN
    import report as REPORT
    known = {f['key'] for f in REPORT.load_known()[0] if f['property'] == pid}
    cfg_out = rep.extra.setdefault('configurations', [])
    for name, defs in configs:
        r2 = MAIN.run_property(pid, 'quick', repo=MAIN.CURRENT_REPO, cmake_defs=defs, quiet=True, configs=False)
        viol = [o for o in r2.obligations if o['status'] == 'violated' and ('%s %s' % (o['rule'], o['key'])) not in known]
        cfg_out.append({'config': name, 'obligations': len(r2.obligations), 'violations': len(viol), 'broken': r2.broken[:2]})
        for o in viol:
            rep.violation(o['rule'], '[%s] %s' % (name, o['key']), o['loc'], o['detail'], o.get('data'))
        if r2.broken:
            rep.broken.append('configuration %s: %s' % (name, r2.broken[0]))
        if not viol and not r2.broken:
            rep.ok('CONFIG', '%s: all %d obligations hold' % (name, len(r2.obligations)), 'cmake -D' + ' -D'.join(defs), '')


def extend(pid, rep):
    import main as MAIN
    import report as REPORT
    known = {f['key'] for f in REPORT.load_known()[0] if f['property'] == pid}
    cfg_out = []
    run_configs(pid, rep, CONFIGS.get(pid, []))
    for name, defs in []:
        r2 = MAIN.run_property(pid, 'quick', cmake_defs=defs, quiet=True)
        viol = [o for o in r2.obligations if o['status'] == 'violated' and ('%s %s' % (o['rule'], o['key'])) not in known]
        cfg_out.append({'config': name, 'obligations': len(r2.obligations), 'violations': len(viol), 'broken': r2.broken[:2]})
        for o in viol:
            rep.violation(o['rule'], '[%s] %s' % (name, o['key']), o['loc'], o['detail'], o.get('data'))
        if r2.broken:
            rep.broken.append('configuration %s: %s' % (name, r2.broken[0]))
        if not viol and not r2.broken:
            rep.ok('CONFIG', '%s: all %d obligations hold' % (name, len(r2.obligations)), 'cmake -D' + ' -D'.join(defs), '')
    res = mutants.run_corpus([pid])
    caught = [r for r in res if r['verdict'] == 'caught']
    missed = [r for r in res if r['verdict'] in ('missed', 'unsupported')]
    noisy = [r for r in res if r['verdict'] == 'noisy']
    skipped = [r for r in res if r['verdict'] == 'skipped']
    silent = [r for r in res if r['verdict'] == 'silent']
    rep.extra['mutant_corpus'] = {'caught': [r['id'] for r in caught], 'missed': [r['id'] for r in missed],
                                  'refactors_silent': [r['id'] for r in silent], 'refactors_noisy': [r['id'] for r in noisy],
                                  'skipped': [(r['id'], (r.get('why') or '')[:120]) for r in skipped]}
    for r in caught:
        rep.ok('CORPUS.MUTANT', '%s refuted (%s)' % (r['id'], ','.join(r.get('rules', []))), 'scratch copy', r['desc'])
    for r in silent:
        rep.ok('CORPUS.REFACTOR', '%s silent' % r['id'], 'scratch copy', r['desc'])
    for r in missed:
        rep.broken.append('checker defect: mutant %s (%s) not refuted' % (r['id'], r['desc']))
    for r in noisy:
        rep.broken.append('checker defect: refactor %s (%s) reported as a violation: %s' % (r['id'], r['desc'], r.get('first')))
