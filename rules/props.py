"""one entry point per property: selects the rule families that decide it"""
from facts import AnalysisBroken
from locks import Sink, WordLockRules

WORD_LOCKS = ('PessimisticLock', 'OptimisticLock')
_cache = {}


def lock_sinks(fx, eng, classes):
    out = {}
    _cache = fx.__dict__.setdefault('_lock_cache', {})
    for cls in classes:
        k = cls
        if k not in _cache:
            sink = Sink()
            if cls == 'MCSLock':
                import mcs
                m = mcs.MCSRules(fx, eng, sink)
            elif cls == 'OptimisticLock':
                import optimistic
                m = optimistic.OptimisticRules(fx, eng, cls, sink)
            else:
                m = WordLockRules(fx, eng, cls, sink)
            m.analyse()
            _cache[k] = (m, sink)
        out[cls] = _cache[k]
    return out


def _locks(fx, eng, rep, classes, prefixes, floors):
    res = lock_sinks(fx, eng, classes)
    for cls, (m, sink) in res.items():
        n = sink.into(rep, prefixes)
        for f in m.fns.values():
            if f.get('_feasible_paths') is not None:
                rep.saw_fn(f)
                rep.analysed['paths'] += len(f['_feasible_paths'])
        rep.floor('%s obligations for %s' % (cls, '/'.join(prefixes)), n, floors.get(cls, 1))
    return res


ALL_LOCKS = ('PessimisticLock', 'OptimisticLock', 'MCSLock')
import os
if os.environ.get('VERIF_NO_MCS'):
    ALL_LOCKS = WORD_LOCKS


def check_C01(fx, eng, rep, tier):
    rep.explanation = ('Per-transition obligations of the lock-mode invariant: every atomic write to a lock word, on every CFG '
                       'path of every function of the three lock classes, is evaluated over the field abstraction '
                       '(X bit, SIX bit, S counter, rest). A granting write must be certified (CAS expected operand / RMW result) '
                       'on a word that satisfies the admission predicate of its mode and must apply exactly that mode\'s delta; '
                       'a release applies the inverse delta; nothing else writes a lock word. These are the premises of the '
                       'inductive argument (DESIGN.md 3.0) that no two conflicting grants coexist, for any number of threads and any interleaving.')
    rep.rule_text = 'C01.ADM / C01.REL / C01.CONV / C01.STORE / C01.ROWS / C01.WHO / C01.TYPE / C10.UPG / C10.DOWN / C13.LOCKEXIT (+ MCS.*, C12.REL for MCSLock); one instance per (function, path class, write)'
    rep.trusted = ['clang 14 AST/CFG', 'cxxfacts extractor', 'induction over atomic steps (DESIGN.md 3.0)', 'S counter never overflows its field']
    rep.assumptions = ['fewer than 2^62 / 2^30 / 2^15 simultaneous shared holders', 'MCS: user-space addresses fit in 47 bits']
    res = _locks(fx, eng, rep, ALL_LOCKS, ['C01.', 'C12.REL', 'C10.UPG', 'C10.DOWN', 'C13.LOCKEXIT', 'MCS.', 'C07.CONV', 'C07.FACTORY', 'C07.WHO'],
                 {'PessimisticLock': 20, 'OptimisticLock': 35, 'MCSLock': 20})
    # the invariant counts grants: every grant is released exactly once, on the lock it was taken on (guard typestate, C07)
    import guards
    guards.check_guards(fx, eng, rep, ALL_LOCKS, res, typestate_only=True)


def check_C10(fx, eng, rep, tier):
    rep.explanation = ('UpgradeToX / DowngradeToSIX on all three lock classes: on every path with an owning source guard exactly one '
                       'flag-changing write is performed, it flips SIX<->X in one atomic step (no state with X=SIX=0 in between), no release '
                       'function is called, the upgrade write is certified on a word with S=0, and the returned guard owns the saved lock.')
    rep.rule_text = 'C10.UPG, C10.DOWN, C10.NOGAP, C07.CONV, MCS.CONV per conversion function and path'
    rep.trusted = ['clang 14 AST/CFG', 'field abstraction of the lock word', 'C01 invariant']
    # the downgrade is a plain store (word locks): it is a single atomic step only because nobody but the X holder writes the
    # word while X is set, i.e. every other write is certified on X = 0 (C01.ADM / C01.ROWS / C01.STORE of the same class)
    # MCSLock: the upgrade drains only the shared holders ahead of the SIX holder; that nobody else is inside rests on the
    # joiners' waits (MCS.WAIT), the inherited flags (MCS.INH) and the drain reads (MCS.DRAIN)
    res = _locks(fx, eng, rep, ALL_LOCKS, ['C10.', 'C12.REL', 'C07.CONV', 'MCS.CONV', 'MCS.UPG', 'MCS.DOWN', 'MCS.WAIT', 'MCS.INH', 'MCS.DRAIN', 'C01.ADM', 'C01.ROWS', 'C01.STORE', 'C01.MASK', 'C01.TYPE', 'C01.CONV'],
                 {'PessimisticLock': 8, 'OptimisticLock': 8, 'MCSLock': 6})
    # a grant released twice clears the SIX / X bit of whoever holds it at that moment: the converted grant is only as safe as the typestate
    import guards
    guards.check_guards(fx, eng, rep, ALL_LOCKS, res, typestate_only=True)


def check_C07(fx, eng, rep, tier):
    rep.explanation = ('Typestate of the guard classes: ownership field derived from operator bool; constructors, move operations, '
                       'destructors, conversions and factories are checked path-sensitively for "owning <=> exactly one grant, released exactly once". '
                       'Type-level facts (non-copyable, nothrow-movable, private release functions) are compile-fail witnesses.')
    rep.rule_text = 'C07.CTOR / C07.DTOR / C07.ASSIGN / C07.MEMBER / C07.FACTORY / C07.CONV / C07.WHO / C07.TYPE per guard class; C01.TYPE per lock class'
    rep.trusted = ['clang 14 AST/CFG', 'clang++/g++ front ends for the witnesses']
    import guards
    guards.check_guards(fx, eng, rep, ALL_LOCKS, lock_sinks(fx, eng, ALL_LOCKS))
    # "released" means the release function really gives the grant back: its write applies the inverse delta (C01.REL / MCS.CLR)
    # the release writes are exact only while conflicting grants exclude each other (the X release is a plain store: a grant
    # admitted beside an X holder is wiped by it, and released a second time by its own guard): the admission rows are premises
    _locks(fx, eng, rep, ALL_LOCKS, ['C07.', 'C01.ROWS', 'C01.REL', 'MCS.CLR', 'C01.TYPE', 'C01.ADM', 'C01.STORE', 'C01.CONV', 'C10.UPG', 'C10.DOWN', 'MCS.UPG', 'MCS.DOWN', 'MCS.WAIT'], {'PessimisticLock': 10, 'OptimisticLock': 14, 'MCSLock': 8})
    _layout_config_rule(fx, rep, LOCK_TUS if 'LOCK_TUS' in globals() else ['pessimistic_lock.cpp', 'optimistic_lock.cpp', 'mcs_lock.cpp'])


def check_C08(fx, eng, rep, tier):
    rep.explanation = ('Memory orders are compile-time constants at every call site; each write that ends a critical section (release of S/SIX/X, '
                       'downgrade) must have release semantics and each read that certifies an admission predicate (granting CAS/RMW, spin load, '
                       'upgrade drain) must have acquire semantics (or a matching fence on the path). Every atomic site of the three classes is classified. '
                       'The ordering argument presupposes that conflicting sections do not overlap, so the exclusion rows of C01 / C10 / MCS are premises and are checked here too.')
    rep.rule_text = 'C08.REL / C08.ACQ per (function, atomic site); sites not on a section boundary are listed in the evidence with the reason; + C01.ADM/ROWS/STORE/MASK/REL, C10.UPG/DOWN, MCS.* (exclusion premises)'
    rep.trusted = ['clang 14 constant evaluation of the order arguments', 'C++20 release-sequence rules']
    # two conflicting sections that overlap are not ordered at all: the exclusion rows are premises of the ordering argument
    res = _locks(fx, eng, rep, ALL_LOCKS, ['C08.', 'C12.REL', 'C01.ADM', 'C01.ROWS', 'C01.STORE', 'C01.MASK', 'C01.TYPE', 'C01.REL', 'C01.CONV', 'C10.UPG', 'C10.DOWN', 'MCS.', 'C12.LINK'],
                 {'PessimisticLock': 8, 'OptimisticLock': 12, 'MCSLock': 16})
    table = []
    for cls, (m, sink) in res.items():
        seen = set()
        for fn, p, e in m.sites:
            k = (e['site'], e['op'], tuple(e['orders']))
            if k in seen:
                continue
            seen.add(k)
            table.append({'class': cls, 'function': fn['name'].replace('dbgroup::lock::', ''), 'line': e['line'], 'op': e['op'],
                          'orders': e['orders'], 'object': m.lock_obj_kind(e['obj'], fn)})
    rep.extra['atomic_sites'] = table
    rep.floor('atomic call sites classified', len(table), 60)


def check_C13(fx, eng, rep, tier):
    rep.explanation = ('PrepareRead exits are separated path-sensitively: the version exit returns the non-owning constructor with a version '
                       'sampled from a word with X clear; the lock exit returns the owning constructor only after a CAS certified on a completely '
                       'free word with effect S+1; the selector after the spin agrees with the lambda exit taken. CompositeGuard::VerifyVersion '
                       'returns true whenever the guard holds the grant and is otherwise the optimistic check; release-exactly-once is C07.')
    rep.rule_text = 'C13.VEREXIT / C13.LOCKEXIT / C13.VERIFY / C13.REL / C01.ROWS(PrepareRead) / C03.SAMPLE+VERIFY(CompositeGuard)'
    rep.trusted = ['clang 14 AST/CFG', 'field abstraction of the lock word']
    res = lock_sinks(fx, eng, ['OptimisticLock'])
    m, sink = res['OptimisticLock']
    n = 0
    for it in sink.items:
        take = it['rule'].startswith(('C13.', 'C01.TYPE')) or ('PrepareRead' in it['key'] and it['rule'].startswith(('C01.', 'C08.ACQ', 'C03.ORDER'))) or \
            ('CompositeGuard' in it['key'] and it['rule'].startswith(('C03.', 'C07.', 'C01.ROWS')))
        if take:
            n += 1
            getattr(rep, {'ok': 'ok', 'violated': 'violation', 'unsupported': 'unsupported'}[it['status']])(it['rule'], it['key'], it['loc'], it['detail'])
    for f in m.fns.values():
        if 'PrepareRead' in f['name'] or 'CompositeGuard' in f['name']:
            rep.saw_fn(f)
    import guards
    guards.check_guards(fx, eng, rep, ['OptimisticLock'], res, only=('CompositeGuard',))
    rep.floor('PrepareRead / CompositeGuard obligations', n, 12)


def check_C03(fx, eng, rep, tier):
    rep.explanation = ('SAMPLE: every version handed out or refreshed is the low 32 bits of an atomic read of the lock word whose path condition '
                       'implies X clear. VERIFY: the result is exactly (refreshed version == version at entry) and the guard keeps the refreshed value. '
                       'TRY: an owning result only through a CAS certified on a word whose version equals the guard\'s (and that satisfies the admission '
                       'predicate, C01); an empty result only when the sampled version differs. Included from C09: every write that ends an exclusive grant '
                       'publishes the guard\'s new version (VER.VAL) and that version is acquisition version + 1 unless SetVersion replaced it (VER.FLOW) - without '
                       'these an unchanged version would not imply that no exclusive section was committed.')
    rep.rule_text = 'C03.SAMPLE / C03.VERIFY / C03.TRY per function and path; C01.ADM for the TryLock* rows'
    rep.trusted = ['clang 14 AST/CFG', 'field abstraction of the lock word', 'interleaving semantics of atomic steps (not the memory model, see DESIGN.md)']
    res = lock_sinks(fx, eng, ['OptimisticLock'])
    m, sink = res['OptimisticLock']
    n = 0
    for it in sink.items:
        # a validation that succeeds while the guard holds a shared grant relies on shared grants excluding exclusive ones:
        # the lock-mode rows of this class (admission, upgrade, downgrade, release) are premises of C03
        # (PrepareRead hands out versions too: its exits are C13.VEREXIT / LOCKEXIT)
        if it['rule'].startswith(('C03.', 'C09.VAL', 'C09.FLOW', 'C01.ADM', 'C01.ROWS', 'C01.REL', 'C01.STORE', 'C01.MASK', 'C01.TYPE', 'C01.CONV', 'C10.UPG', 'C10.DOWN', 'C13.VEREXIT', 'C13.LOCKEXIT', 'C13.VERIFY')):
            n += 1
            getattr(rep, {'ok': 'ok', 'violated': 'violation', 'unsupported': 'unsupported'}[it['status']])(it['rule'], it['key'], it['loc'], it['detail'])
    for f in m.fns.values():
        if f.get('_feasible_paths') is not None:
            rep.saw_fn(f)
    # a validation that succeeds because the guard "holds a shared grant" needs that grant to be held: typestate of the guards
    import guards
    guards.check_guards(fx, eng, rep, ['OptimisticLock'], res, typestate_only=True)
    rep.floor('C03 obligations', n, 20)


def check_C09(fx, eng, rep, tier):
    rep.explanation = ('VER.WHO: only the release-X and downgrade rows can change the version field (all other rows are checked to leave the rest '
                       'field unchanged, C01). VER.VAL: the word stored at the end of an exclusive grant is the zero-extended 32-bit member that '
                       'SetVersion writes (| SIX for the downgrade), so no version value can disturb lock-mode bits. VER.FLOW: that member is '
                       'acquisition version + 1 (32-bit arithmetic) unless SetVersion replaced it; the acquisition version is the version field of the '
                       'word certified by the granting write; GetVersion returns it.')
    rep.rule_text = 'C09.VAL / C09.FLOW / C09.TYPE + C01.ADM/REL/C10.UPG rows of OptimisticLock (rest field unchanged)'
    rep.trusted = ['clang 14 AST/CFG and type sizes', 'field abstraction of the lock word']
    res = lock_sinks(fx, eng, ['OptimisticLock'])
    m, sink = res['OptimisticLock']
    # C02.ADMIT: no version value (the wrap-around value included) keeps an admissible exclusive request from being granted
    n = sink.into(rep, ['C09.', 'C01.ADM', 'C01.REL', 'C10.UPG', 'C10.DOWN', 'C01.STORE', 'C01.WHO', 'C01.TYPE', 'C01.CONV', 'C02.ADMIT'])
    # a failed TryLock* / a version read must not write the word at all
    for it in sink.items:
        if it['rule'].startswith(('C01.ROWS', 'C03.SAMPLE')) and ('TryLock' in it['key'] or 'GetVersion' in it['key'] or 'VerifyVersion' in it['key']):
            n += 1
            getattr(rep, {'ok': 'ok', 'violated': 'violation', 'unsupported': 'unsupported'}[it['status']])(it['rule'], it['key'], it['loc'], it['detail'])
    for f in m.fns.values():
        if f.get('_feasible_paths') is not None:
            rep.saw_fn(f)
    # the version to publish travels with the exclusive guard: its move operations carry every member over
    import guards
    guards.check_guards(fx, eng, rep, ['OptimisticLock'], res, only=('XGuard',), typestate_only=True)
    _layout_config_rule(fx, rep, ['optimistic_lock.cpp'])
    rep.floor('C09 obligations', n, 30)


def check_C11(fx, eng, rep, tier):
    rep.explanation = ('Arrival of an MCS request is its single RMW on the lock word. X/SIX arrivals are unconditional exchanges that install the own node with '
                       'the own mode flag (FIFO.TAIL, MCS.PUB); the own node inherits exactly the flags of the word it replaced (MCS.INH); the request returns '
                       'only after an acquire read certified those flags cleared (MCS.WAIT); a flag is cleared only by its owner\'s release, exactly once, on the '
                       'lock word while still tail or on the successor\'s node (MCS.CLR); shared arrivals join the current tail word by a certified CAS. These are '
                       'the premises of the hand argument that no later conflicting arrival is granted first.')
    rep.rule_text = 'C11.TAIL, MCS.PUB, MCS.INH, MCS.LINK, MCS.WAIT, MCS.CLR, MCS.DRAIN per function and path class'
    rep.trusted = ['clang 14 AST/CFG', 'field abstraction of lock and node words', 'hand argument DESIGN.md C11', 'addresses fit in 47 bits']
    _locks(fx, eng, rep, ['MCSLock'], ['C11.', 'C12.REL', 'C12.LINK', 'C01.WHO', 'MCS.PUB', 'MCS.INH', 'MCS.LINK', 'MCS.WAIT', 'MCS.CLR', 'MCS.DRAIN', 'MCS.UPG', 'MCS.DOWN', 'MCS.CONV', 'C01.MASK', 'C01.TYPE'], {'MCSLock': 20})


def check_C12(fx, eng, rep, tier):
    rep.explanation = ('Queue-node life cycle as typestate: a fresh node (new / thread-local cache) is either published by the arrival write and stored in the '
                       'returned guard, or handed back to the cache (NODE.ACQ); each release path recycles the group node exactly when the abstract word it '
                       'certified shows nothing but the releaser\'s own contribution (NODE.REL, both directions: leak and premature recycle); no access to a '
                       'node after it was recycled on the same path, nodes are never deleted directly, the cache is a thread_local unique_ptr (NODE.UAR, TLS).')
    rep.rule_text = 'C12.ACQ / C12.REL / C12.UAR / C12.TLS per function and path'
    rep.trusted = ['clang 14 AST/CFG', 'field abstraction', 'protocol invariant: a member counted in the successor word keeps the successor from finishing (C01)']
    rep.assumptions = ['not decided: stale pointers held by another thread (protocol-level argument)']
    # the recycle decision is taken on the word the release write certified: a release that clears more than its own
    # contribution (MCS.CLR) hands the node back while other members still refer to it
    _locks(fx, eng, rep, ['MCSLock'], ['C12.', 'C01.WHO', 'MCS.LINK', 'MCS.UPG', 'MCS.DOWN', 'MCS.CONV', 'MCS.INH', 'MCS.CLR', 'C01.MASK', 'C01.TYPE'], {'MCSLock': 12})


def check_C02(fx, eng, rep, tier):
    rep.explanation = ('Necessary conditions of progress, each structural: LIVE.SPIN (every spin / wait loop re-reads the atomic word its exit tests; the spin '
                       'helper returns iff its procedure returned true; an iteration that does not exit writes nothing), LIVE.HANDOFF (every release path performs '
                       'exactly one flag-clearing write), LIVE.FREE (release deltas are the exact inverses of the acquire deltas, C01.REL / MCS.CLR; conversions return '
                       'owning guards, C07.CONV), LIVE.PUBSTORE (no plain store to a published MCS node). Eventual grant under every fair schedule as a whole is not decided.')
    rep.rule_text = 'C02.SPIN / C02.SPINFN / C02.HANDOFF / C02.PUBSTORE + C01.REL / MCS.CLR / C07.CONV'
    rep.trusted = ['clang 14 AST/CFG', 'field abstraction']
    rep.assumptions = ['liveness itself (fair schedules) is not decided; these are necessary conditions']
    res = _locks(fx, eng, rep, ALL_LOCKS, ['C02.', 'C12.REL', 'C01.REL', 'MCS.CLR', 'MCS.WAIT', 'MCS.LINK', 'C07.CONV', 'C01.ROWS', 'C01.MASK', 'C01.TYPE', 'C01.CONV'], {'PessimisticLock': 10, 'OptimisticLock': 14, 'MCSLock': 14})
    # a grant that is released twice (or never) leaves the word non-free for ever: the guard typestate is a necessary condition of progress
    import guards
    guards.check_guards(fx, eng, rep, ALL_LOCKS, res, typestate_only=True)


# ---------------------------------------------------------------------------------- thread / epoch
def _layout_config_rule(fx, rep, tus):
    """C01.TYPE (layout): the data members of the library's classes are the same with and without NDEBUG.  The library is compiled
    separately from its clients (Release builds define NDEBUG, a client may not): a member that exists in one of the two
    configurations only shifts every later member between the inline functions of the headers and the compiled member functions."""
    import facts as F2
    try:
        fx2 = F2.extract(tus, extra_defs=['!NDEBUG'], repo=F2.REPO)
    except AnalysisBroken as ex:
        rep.unsupported('C01.TYPE', 'class layouts do not depend on NDEBUG', '', str(ex)[:120])
        return
    bad = []
    for name, r in fx.records.items():
        r2 = fx2.records.get(name)
        if r2 is None:
            continue
        a = [(f['name'], f['type'].get('ct')) for f in r['fields']]
        b = [(f['name'], f['type'].get('ct')) for f in r2['fields']]
        if a != b:
            bad.append((name, r, sorted(set(a) ^ set(b))))
    if bad:
        for name, r, diff in bad:
            rep.violation('C01.TYPE', '%s has the same data members with and without NDEBUG' % name.split('::', 2)[-1], '%s:%s' % (r['file'], r['line']),
                          'members that exist in one configuration only: %s - a client and the library compiled with different NDEBUG settings disagree on the offsets of the members behind them' % diff)
    else:
        rep.ok('C01.TYPE', 'class layouts do not depend on NDEBUG', '', '%d classes compared' % len(fx.records))


def _take(rep, sink, prefixes, only=None):
    n = 0
    if getattr(sink, 'broken', None) and sink.broken not in rep.broken:
        rep.broken.append(sink.broken)     # the rules could not be applied as a whole (what was decided before that is still reported)
    for it in sink.items:
        if any(it['rule'].startswith(p) for p in prefixes) and (only is None or only(it)):
            n += 1
            getattr(rep, {'ok': 'ok', 'violated': 'violation', 'unsupported': 'unsupported'}[it['status']])(it['rule'], it['key'], it['loc'], it['detail'])
    return n


def _thread_fns(rep, fx, tus):
    for f in fx.functions.values():
        if f['tu'] in tus and f['name'].startswith('dbgroup::thread::'):
            rep.saw_fn(f)


def _ids_other_capacity(rep, prefixes, cap=3):
    """the ID rules quantify over capacities: repeat them on facts extracted with a small capacity that is not a power of two"""
    import facts as F2
    import ids
    from pathsim import Engine
    fx2 = F2.extract(['id_manager.cpp', 'epoch_manager.cpp'], cmake_defs=['DBGROUP_MAX_THREAD_NUM=%d' % cap], repo=F2.REPO)
    eng2 = Engine(fx2, max_header_visits=3)
    r2, sink2 = ids.analyse(fx2, eng2)
    n = 0
    for it in sink2.items:
        if any(it['rule'].startswith(p) for p in prefixes):
            n += 1
            key = '[capacity %d] %s' % (cap, it['key'])
            getattr(rep, {'ok': 'ok', 'violated': 'violation', 'unsupported': 'unsupported'}[it['status']])(it['rule'], key, it['loc'], it['detail'])
    return n


def check_C15(fx, eng, rep, tier):
    import ids
    eng.max_header_visits = 3
    r, sink = ids.analyse(fx, eng)
    rep.explanation = ('Event order on the thread-exit path: in the CFG of ~HeartBeater (implicit member destructors included) the event that drops the heartbeat\'s '
                       'control block (EXPIRE) must precede the store that frees the reservation flag (FREE) on every path; FREE must be a release and the claiming RMW '
                       'an acquire so that "already expired" also holds for the claimer under the memory model; the heartbeat member is created by SetID and dropped '
                       'by the destructor only, GetHeartBeat returns a weak_ptr to it, and HeartBeater cannot be copied (no second owner of the control block).')
    rep.rule_text = 'C15.ORDER / C15.SYNC / C15.LIFE on ~HeartBeater, the claim loop, SetID, GetHeartBeat'
    rep.trusted = ['clang 14 CFG with implicit destructors', 'std::shared_ptr/weak_ptr semantics (expired <=> no owner)']
    n = _take(rep, sink, ['C15.', 'C05.CLAIM', 'C05.WHO', 'C05.STABLE', 'C05.INIT', 'C14.FREE'])
    _thread_fns(rep, fx, ('id_manager.cpp',))
    rep.floor('C15 obligations', n, 8)


def check_C05(fx, eng, rep, tier):
    import ids
    eng.max_header_visits = 3
    r, sink = ids.analyse(fx, eng)
    rep.explanation = ('ID.CLAIM: the ID recorded by SetID was claimed by an RMW on its reservation flag whose old value is tested false on that path (no check-then-store); '
                       'ID.WHO: flags are written only by the claim loop and by ~HeartBeater for its own ID; ID.RANGE: every subscript of the reservation array is bounded by '
                       'its extent by the path condition (unsigned compare against the extent) and the per-ID slot array has the same extent; ID.STABLE: SetID is reached '
                       'only when the thread_local holder has no ID, GetThreadID returns the stored value.')
    rep.rule_text = 'C05.CLAIM / C05.WHO / C05.RANGE / C05.STABLE per path of GetHeartBeater and ~HeartBeater; thorough tier re-extracts under DBGROUP_MAX_THREAD_NUM in {1,2,3,256}'
    rep.trusted = ['clang 14 AST/CFG', 'extent of the array from the type-checked program']
    n = _take(rep, sink, ['C05.', 'C14.FREE'])
    _ids_other_capacity(rep, ['C05.', 'C14.FREE'])
    _thread_fns(rep, fx, ('id_manager.cpp',))
    rep.extra['capacity'] = r.extent
    rep.floor('C05 obligations', n, 10)


def check_C14(fx, eng, rep, tier):
    import ids
    eng.max_header_visits = 3
    r, sink = ids.analyse(fx, eng)
    rep.explanation = ('ID.FREE: the holder is thread_local and every path of its destructor stores false into the flag of the held ID; nothing else owns the flag. '
                       'ID.PROBE: the claim loop exits only with a claimed ID, advances the index by one modulo the capacity and re-reads the flag in every iteration, so a '
                       'freed slot is found within one round. Termination under over-subscription for every fair schedule is not decided.')
    rep.rule_text = 'C14.FREE / C14.PROBE + C05.WHO / C05.STABLE(thread_local)'
    rep.trusted = ['clang 14 AST/CFG']
    rep.assumptions = ['liveness under over-subscription is not decided; these are its necessary conditions']
    n = _take(rep, sink, ['C14.', 'C05.WHO', 'C05.STABLE', 'C05.CLAIM', 'C05.INIT'])
    _ids_other_capacity(rep, ['C14.', 'C05.WHO', 'C05.STABLE'])
    _thread_fns(rep, fx, ('id_manager.cpp',))
    rep.floor('C14 obligations', n, 6)


EPOCH_TUS = ('epoch_manager.cpp', 'epoch.cpp', 'epoch_guard.cpp', 'id_manager.cpp')


def check_C04(fx, eng, rep, tier):
    import epoch
    import ids
    eng.max_header_visits = 3
    r, sink = epoch.analyse(fx, eng)
    r2, sink2 = ids.analyse(fx, eng)
    rep.explanation = ('The chain "guard created => slot bound and pin stored => scan reads every live slot => pin in the list => list sorted, minimum published" is checked link by '
                       'link: EP.GUARD (typestate of EpochGuard), EP.ENTER (who writes the pin, what), EP.BIND (slot = caller\'s thread ID, re-bound when the stored heartbeat '
                       'expired), EP.SCAN (loop covers every slot; only expired heartbeats and the sentinel are skipped; cur and cur+1 always appended), LIST.SORT, EP.PUBLISH '
                       '(list filled before the release store of the new epoch), EP.REUSE (the C15 rules: an ID cannot be handed out with an unexpired heartbeat), and the '
                       'SHARED-FIELD discipline for non-atomic members used by both roles.')
    rep.rule_text = 'C04.GUARD / ENTER / BIND / SCAN / PUBLISH / SHARED + C16.SORT + C15.ORDER / C15.SYNC (EP.REUSE)'
    rep.trusted = ['clang 14 AST/CFG', 'single coordinator calls ForwardGlobalEpoch (documented contract)', 'std::sort/unique/erase semantics']
    rep.assumptions = ['visibility of the relaxed pin store to the scan is read as happens-before ("completely created before")']
    n = _take(rep, sink, ['C04.', 'C16.SORT', 'C16.MIN'])
    # a slot is protected by its owner's pin only if no second live thread owns the same slot: the uniqueness rows of the IDs
    n += _take(rep, sink2, ['C15.ORDER', 'C15.SYNC', 'C15.LIFE', 'C05.INIT', 'C05.WHO', 'C05.CLAIM', 'C14.FREE'])
    _thread_fns(rep, fx, EPOCH_TUS)
    rep.floor('C04 obligations', n, 25)


def check_C16(fx, eng, rep, tier):
    import epoch
    eng.max_header_visits = 3
    r, sink = epoch.analyse(fx, eng)
    rep.explanation = ('EPOCH.INIT: both epoch words start at kInitialEpoch (= kCapacity, the documented initial epoch). EPOCH.STEP: the only write to the global epoch is one '
                       'release store per ForwardGlobalEpoch of (value loaded earlier in the same call + 1). EPOCH.MIN: the only write to the minimum is the last element of '
                       'the list built in the same call, which contains the current epoch and is sorted descending. EPOCH.QUIESCE: LeaveEpoch stores the sentinel, the scan '
                       'skips only the sentinel and expired slots and appends cur+1 and cur unconditionally, so without guards the list is {cur+1, cur}.')
    rep.rule_text = 'C16.INIT / C16.STEP / C16.MIN / C16.SORT + C04.SCAN / C04.ENTER / C04.PUBLISH'
    rep.trusted = ['clang 14 AST/CFG', 'single coordinator', 'std::sort/unique/erase semantics']
    # "reclamation can progress" for every number of forwards: the retirement walk frees what nobody refers to (C20.WALK / KEEP / RETIRE)
    n = _take(rep, sink, ['C16.', 'C04.SCAN', 'C04.ENTER', 'C04.PUBLISH', 'C04.GUARD', 'C04.TYPE', 'C20.ALLOC', 'C20.WALK', 'C20.KEEP', 'C20.RETIRE', 'C17.FREE', 'C17.OWN', 'C17.PUB'])
    # every epoch property rests on one slot per live thread: the uniqueness rows of the thread IDs are premises
    import ids as _ids
    _r2, _sink2 = _ids.analyse(fx, eng)
    n += _take(rep, _sink2, ['C15.ORDER', 'C15.SYNC', 'C15.LIFE', 'C05.INIT', 'C05.WHO', 'C05.CLAIM', 'C14.FREE'])
    _thread_fns(rep, fx, EPOCH_TUS)
    rep.floor('C16 obligations', n, 15)


def check_C17(fx, eng, rep, tier):
    import epoch
    eng.max_header_visits = 3
    r, sink = epoch.analyse(fx, eng)
    rep.explanation = ('LIST.OWN: the list handed out is looked up with the returned guard\'s own pinned epoch after the guard exists; node lookup and slot selection use masks that '
                       'partition the word. LIST.CONST: the pair\'s second member is a reference to const vector (witness) and vectors are mutated only while they are filled, before '
                       'their epoch is published with a release store / read with an acquire load. NODE.FREE: nodes are deleted only after being unlinked, never the head, and not '
                       'touched afterwards. SHARED-FIELD: non-atomic members written by the coordinator and read by workers are reported. Not decided: stability when a worker is '
                       'stalled between reading the global epoch and publishing its pin (documented observation O2).')
    rep.rule_text = 'C17.OWN / C17.CONST / C17.FREE / C17.PUB / C17.SHARED + C20.UAF + C04.SCAN / C16.SORT (shape of the list)'
    rep.trusted = ['clang 14 AST/CFG', 'clang++ for the witness', 'single coordinator']
    n = _take(rep, sink, ['C17.', 'C20.UAF', 'C20.ALLOC', 'C04.SCAN', 'C16.SORT', 'C04.PUBLISH', 'C16.STEP', 'C04.BIND', 'C04.GUARD', 'C04.ENTER', 'C04.TYPE'])
    # every epoch property rests on one slot per live thread: the uniqueness rows of the thread IDs are premises
    import ids as _ids
    _r2, _sink2 = _ids.analyse(fx, eng)
    n += _take(rep, _sink2, ['C15.ORDER', 'C15.SYNC', 'C15.LIFE', 'C05.INIT', 'C05.WHO', 'C05.CLAIM', 'C14.FREE'])
    from witness import run_witness
    w = run_witness(fx.flags, ['dbgroup/thread/epoch_manager.hpp'],
                    [('second is const vector&', 'std::is_same_v<decltype(std::declval<dbgroup::thread::EpochManager &>().GetProtectedEpochs().second), const std::vector<size_t> &>', '')])
    rep.check(w['second is const vector&'], 'C17.CONST', 'GetProtectedEpochs().second is a reference to const std::vector<size_t>', 'witness TU', 'static_assert holds', 'the list can be modified through the returned reference')
    _thread_fns(rep, fx, EPOCH_TUS)
    rep.floor('C17 obligations', n, 20)


def check_C20(fx, eng, rep, tier):
    import epoch
    eng.max_header_visits = 3
    r, sink = epoch.analyse(fx, eng)
    rep.explanation = ('Sequential histories: exactness of the published list = EP.SCAN + LIST.SORT + EPOCH.MIN. NODE.ALLOC: list nodes are allocated only at a 256-epoch boundary and '
                       'in the constructor, each becoming the head linked to the previous head. NODE.FREE: unlink before delete, never the head, no access afterwards. DTOR.WALK: the '
                       'destructor starts at the head, reads next before deleting each node, deletes each visited node once and stops at null. NODE.KEEP: the retirement walk keeps a node only on an equality test of its range bits (a node kept '
                       'on an order comparison alone stays without a protected epoch in its range). Not decided beyond that: the retention bound of RemoveOutDatedLists (depends on runtime epochs).')
    rep.rule_text = 'C20.ALLOC / C20.WALK / C20.KEEP / C20.UAF + C17.FREE / C17.OWN (node lookup) + C04.SCAN / C04.PUBLISH / C16.SORT / C16.MIN'
    rep.trusted = ['clang 14 AST/CFG', 'std::sort/unique/erase semantics']
    rep.assumptions = ['the retention bound is decided only through C20.KEEP / C20.WALKINV (necessary conditions)']
    n = _take(rep, sink, ['C20.', 'C17.FREE', 'C17.OWN', 'C04.SCAN', 'C04.PUBLISH', 'C16.SORT', 'C16.MIN', 'C16.INIT', 'C04.GUARD', 'C04.ENTER', 'C04.BIND', 'C04.TYPE'])
    # every epoch property rests on one slot per live thread: the uniqueness rows of the thread IDs are premises
    import ids as _ids
    _r2, _sink2 = _ids.analyse(fx, eng)
    n += _take(rep, _sink2, ['C15.ORDER', 'C15.SYNC', 'C15.LIFE', 'C05.INIT', 'C05.WHO', 'C05.CLAIM', 'C14.FREE'])
    _thread_fns(rep, fx, EPOCH_TUS)
    rep.floor('C20 obligations', n, 15)


# ---------------------------------------------------------------------------------- Zipf
def check_C19(fx, eng, rep, tier):
    import zipf
    eng.max_header_visits = 3
    r, sink = zipf.analyse(fx, eng)
    rep.explanation = ('Effect rules on all 8 instantiations: operator(), GetCDF and GetHarmonicNum are const, write nothing reachable from this or from globals, cast no const away, '
                       'call only their own const methods, bounds-checked table reads, <cmath> and a thread_local distribution from a two-entry allow-list of stateless types drawn '
                       'from the caller\'s engine (PURE.NOMUT / TLS / DEPS); no mutable or non-constant static member; copy/move operations are defaulted over value-semantic members '
                       '(PURE.CONST, with static_assert witnesses under clang++ and g++); the three-argument constructors throw exactly on the path where max < min and return only '
                       'where that test failed (CTOR.REJECT). Equality of output sequences follows from these (same inputs, no hidden state) and is not observed.')
    rep.rule_text = 'C19.CONST / C19.NOMUT / C19.TLS / C19.DEPS / C19.REJECT per instantiation (8)'
    rep.trusted = ['clang 14 AST/CFG of the instantiated templates', 'clang++ / g++ for the witnesses', 'allow-listed std distributions keep no state between calls']
    # equal parameters give equal outputs only if every member that changes a parameter rebuilds all the state derived from it
    n = _take(rep, sink, ['C19.', 'C06.DENOM', 'C06.BUILD', 'C06.DEFAULT', 'C06.PIN'])
    for f in fx.functions.values():
        if 'Zipf' in f['name']:
            rep.saw_fn(f)
    rep.extra['instantiations'] = [c[0] for c in r.classes]
    rep.floor('C19 obligations', n, 100)


def check_C06(fx, eng, rep, tier):
    import zipf
    eng.max_header_visits = 3
    r, sink = zipf.analyse(fx, eng)
    rep.explanation = ('Necessary conditions of the range clause only (each one, if broken, yields a value outside [min, max] or a non-zero default): Z.PIN (the exact table\'s last '
                       'entry is stored as the literal 1.0 after every other table write), Z.DENOM (the approximate reader divides H(id+1) by denom_ = H(n_), n_ = max-min+1, so the '
                       'last bin is x/x), Z.SWITCH (reader threshold, table extent and kExactBinNum agree), Z.ACCESS (bounds-checked table reads), Z.DEFAULT (defaults describe the '
                       'single bin [0,0] and the single-bin branch stores {1.0}), Z.RANGE (search starts on [0, bins-1], result = min + position), Z.BUILD (the table is appended to only during construction or after being emptied), CTOR.REJECT (exactly max < min is rejected). NOT decided: that the binary search '
                       'returns the inverse-CDF image for every variate (a changed comparison in the search is not detected by this check).')
    rep.rule_text = 'C06.PIN / C06.DENOM / C06.SWITCH / C06.ACCESS / C06.DEFAULT / C06.RANGE per instantiation (8)'
    rep.trusted = ['clang 14 AST/CFG of the instantiated templates']
    rep.assumptions = ['inverse-CDF correctness of the search loop is not decided']
    # the claims hold for every admissible (min, max, alpha): the constructors accept exactly max >= min (C19.REJECT), and a generator
    # that was copied / moved / re-parameterised still describes its range (C19.CONST memberwise, C06.BUILD)
    n = _take(rep, sink, ['C06.', 'C19.REJECT'])
    for f in fx.functions.values():
        if 'Zipf' in f['name']:
            rep.saw_fn(f)
    rep.floor('C06 obligations', n, 60)
