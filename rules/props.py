"""one entry point per property: selects the rule families that decide it"""
from facts import AnalysisBroken
from locks import Sink, WordLockRules

WORD_LOCKS = ('PessimisticLock', 'OptimisticLock')
_cache = {}


def lock_sinks(fx, eng, classes):
    out = {}
    for cls in classes:
        k = (id(fx), cls)
        if k not in _cache:
            sink = Sink()
            if cls == 'MCSLock':
                import mcs
                m = mcs.MCSRules(fx, eng, sink)
            elif cls == 'OptimisticLock':
                import optimistic
                m = optimistic.OptimisticRules(fx, eng, cls, sink)
            else:
                m = WordLockRules(fx, eng, cls, sink)
            m.analyse()
            _cache[k] = (m, sink)
        out[cls] = _cache[k]
    return out


def _locks(fx, eng, rep, classes, prefixes, floors):
    res = lock_sinks(fx, eng, classes)
    for cls, (m, sink) in res.items():
        n = sink.into(rep, prefixes)
        for f in m.fns.values():
            if f.get('_feasible_paths') is not None:
                rep.saw_fn(f)
                rep.analysed['paths'] += len(f['_feasible_paths'])
        rep.floor('%s obligations for %s' % (cls, '/'.join(prefixes)), n, floors.get(cls, 1))
    return res


ALL_LOCKS = ('PessimisticLock', 'OptimisticLock', 'MCSLock')
import os
if os.environ.get('VERIF_NO_MCS'):
    ALL_LOCKS = WORD_LOCKS


def check_C01(fx, eng, rep, tier):
    rep.explanation = ('Per-transition obligations of the lock-mode invariant: every atomic write to a lock word, on every CFG '
                       'path of every function of the three lock classes, is evaluated over the field abstraction '
                       '(X bit, SIX bit, S counter, rest). A granting write must be certified (CAS expected operand / RMW result) '
                       'on a word that satisfies the admission predicate of its mode and must apply exactly that mode\'s delta; '
                       'a release applies the inverse delta; nothing else writes a lock word. These are the premises of the '
                       'inductive argument (DESIGN.md 3.0) that no two conflicting grants coexist, for any number of threads and any interleaving.')
    rep.rule_text = 'C01.ADM / C01.REL / C01.STORE / C01.ROWS / C01.WHO / C10.UPG / C10.DOWN / C13.LOCKEXIT (+ MCS.* for MCSLock); one instance per (function, path class, write)'
    rep.trusted = ['clang 14 AST/CFG', 'cxxfacts extractor', 'induction over atomic steps (DESIGN.md 3.0)', 'S counter never overflows its field']
    rep.assumptions = ['fewer than 2^62 / 2^30 / 2^15 simultaneous shared holders', 'MCS: user-space addresses fit in 47 bits']
    _locks(fx, eng, rep, ALL_LOCKS, ['C01.', 'C10.UPG', 'C10.DOWN', 'C13.LOCKEXIT', 'MCS.'],
           {'PessimisticLock': 20, 'OptimisticLock': 35, 'MCSLock': 20})


def check_C10(fx, eng, rep, tier):
    rep.explanation = ('UpgradeToX / DowngradeToSIX on all three lock classes: on every path with an owning source guard exactly one '
                       'flag-changing write is performed, it flips SIX<->X in one atomic step (no state with X=SIX=0 in between), no release '
                       'function is called, the upgrade write is certified on a word with S=0, and the returned guard owns the saved lock.')
    rep.rule_text = 'C10.UPG, C10.DOWN, C10.NOGAP, C07.CONV, MCS.CONV per conversion function and path'
    rep.trusted = ['clang 14 AST/CFG', 'field abstraction of the lock word', 'C01 invariant']
    _locks(fx, eng, rep, ALL_LOCKS, ['C10.', 'C07.CONV', 'MCS.CONV', 'MCS.UPG', 'MCS.DOWN'], {'PessimisticLock': 8, 'OptimisticLock': 8, 'MCSLock': 6})


def check_C07(fx, eng, rep, tier):
    rep.explanation = ('Typestate of the guard classes: ownership field derived from operator bool; constructors, move operations, '
                       'destructors, conversions and factories are checked path-sensitively for "owning <=> exactly one grant, released exactly once". '
                       'Type-level facts (non-copyable, nothrow-movable, private release functions) are compile-fail witnesses.')
    rep.rule_text = 'C07.CTOR / C07.DTOR / C07.ASSIGN / C07.FACTORY / C07.CONV / C07.WHO / C07.TYPE per guard class'
    rep.trusted = ['clang 14 AST/CFG', 'clang++/g++ front ends for the witnesses']
    import guards
    guards.check_guards(fx, eng, rep, ALL_LOCKS, lock_sinks(fx, eng, ALL_LOCKS))
    _locks(fx, eng, rep, ALL_LOCKS, ['C07.', 'C01.ROWS'], {'PessimisticLock': 10, 'OptimisticLock': 14, 'MCSLock': 8})


def check_C08(fx, eng, rep, tier):
    rep.explanation = ('Memory orders are compile-time constants at every call site; each write that ends a critical section (release of S/SIX/X, '
                       'downgrade) must have release semantics and each read that certifies an admission predicate (granting CAS/RMW, spin load, '
                       'upgrade drain) must have acquire semantics (or a matching fence on the path). Every atomic site of the three classes is classified.')
    rep.rule_text = 'C08.REL / C08.ACQ per (function, atomic site); sites not on a section boundary are listed in the evidence with the reason'
    rep.trusted = ['clang 14 constant evaluation of the order arguments', 'C++20 release-sequence rules', 'C01 (plain stores only by X holders)']
    res = _locks(fx, eng, rep, ALL_LOCKS, ['C08.'], {'PessimisticLock': 8, 'OptimisticLock': 12, 'MCSLock': 16})
    table = []
    for cls, (m, sink) in res.items():
        seen = set()
        for fn, p, e in m.sites:
            k = (e['site'], e['op'], tuple(e['orders']))
            if k in seen:
                continue
            seen.add(k)
            table.append({'class': cls, 'function': fn['name'].replace('dbgroup::lock::', ''), 'line': e['line'], 'op': e['op'],
                          'orders': e['orders'], 'object': m.lock_obj_kind(e['obj'], fn)})
    rep.extra['atomic_sites'] = table
    rep.floor('atomic call sites classified', len(table), 60)


def check_C13(fx, eng, rep, tier):
    rep.explanation = ('PrepareRead exits are separated path-sensitively: the version exit returns the non-owning constructor with a version '
                       'sampled from a word with X clear; the lock exit returns the owning constructor only after a CAS certified on a completely '
                       'free word with effect S+1; the selector after the spin agrees with the lambda exit taken. CompositeGuard::VerifyVersion '
                       'returns true whenever the guard holds the grant and is otherwise the optimistic check; release-exactly-once is C07.')
    rep.rule_text = 'C13.VEREXIT / C13.LOCKEXIT / C13.VERIFY / C13.REL / C01.ROWS(PrepareRead) / C03.SAMPLE+VERIFY(CompositeGuard)'
    rep.trusted = ['clang 14 AST/CFG', 'field abstraction of the lock word']
    res = lock_sinks(fx, eng, ['OptimisticLock'])
    m, sink = res['OptimisticLock']
    n = 0
    for it in sink.items:
        take = it['rule'].startswith('C13.') or ('PrepareRead' in it['key'] and it['rule'].startswith(('C01.', 'C08.ACQ'))) or \
            ('CompositeGuard' in it['key'] and it['rule'].startswith(('C03.', 'C07.', 'C01.ROWS')))
        if take:
            n += 1
            getattr(rep, {'ok': 'ok', 'violated': 'violation', 'unsupported': 'unsupported'}[it['status']])(it['rule'], it['key'], it['loc'], it['detail'])
    for f in m.fns.values():
        if 'PrepareRead' in f['name'] or 'CompositeGuard' in f['name']:
            rep.saw_fn(f)
    import guards
    guards.check_guards(fx, eng, rep, ['OptimisticLock'], res, only=('CompositeGuard',))
    rep.floor('PrepareRead / CompositeGuard obligations', n, 12)


def check_C03(fx, eng, rep, tier):
    rep.explanation = ('SAMPLE: every version handed out or refreshed is the low 32 bits of an atomic read of the lock word whose path condition '
                       'implies X clear. VERIFY: the result is exactly (refreshed version == version at entry) and the guard keeps the refreshed value. '
                       'TRY: an owning result only through a CAS certified on a word whose version equals the guard\'s (and that satisfies the admission '
                       'predicate, C01); an empty result only when the sampled version differs.')
    rep.rule_text = 'C03.SAMPLE / C03.VERIFY / C03.TRY per function and path; C01.ADM for the TryLock* rows'
    rep.trusted = ['clang 14 AST/CFG', 'field abstraction of the lock word', 'interleaving semantics of atomic steps (not the memory model, see DESIGN.md)']
    res = lock_sinks(fx, eng, ['OptimisticLock'])
    m, sink = res['OptimisticLock']
    n = 0
    for it in sink.items:
        if it['rule'].startswith('C03.') or ('TryLock' in it['key'] and it['rule'].startswith(('C01.ADM', 'C01.ROWS'))):
            n += 1
            getattr(rep, {'ok': 'ok', 'violated': 'violation', 'unsupported': 'unsupported'}[it['status']])(it['rule'], it['key'], it['loc'], it['detail'])
    for f in m.fns.values():
        if f.get('_feasible_paths') is not None:
            rep.saw_fn(f)
    rep.floor('C03 obligations', n, 20)


def check_C09(fx, eng, rep, tier):
    rep.explanation = ('VER.WHO: only the release-X and downgrade rows can change the version field (all other rows are checked to leave the rest '
                       'field unchanged, C01). VER.VAL: the word stored at the end of an exclusive grant is the zero-extended 32-bit member that '
                       'SetVersion writes (| SIX for the downgrade), so no version value can disturb lock-mode bits. VER.FLOW: that member is '
                       'acquisition version + 1 (32-bit arithmetic) unless SetVersion replaced it; the acquisition version is the version field of the '
                       'word certified by the granting write; GetVersion returns it.')
    rep.rule_text = 'C09.VAL / C09.FLOW / C09.TYPE + C01.ADM/REL/C10.UPG rows of OptimisticLock (rest field unchanged)'
    rep.trusted = ['clang 14 AST/CFG and type sizes', 'field abstraction of the lock word']
    res = lock_sinks(fx, eng, ['OptimisticLock'])
    m, sink = res['OptimisticLock']
    n = sink.into(rep, ['C09.', 'C01.ADM', 'C01.REL', 'C10.UPG', 'C10.DOWN', 'C01.STORE', 'C01.WHO'])
    for f in m.fns.values():
        if f.get('_feasible_paths') is not None:
            rep.saw_fn(f)
    rep.floor('C09 obligations', n, 30)


def check_C11(fx, eng, rep, tier):
    rep.explanation = ('Arrival of an MCS request is its single RMW on the lock word. X/SIX arrivals are unconditional exchanges that install the own node with '
                       'the own mode flag (FIFO.TAIL, MCS.PUB); the own node inherits exactly the flags of the word it replaced (MCS.INH); the request returns '
                       'only after an acquire read certified those flags cleared (MCS.WAIT); a flag is cleared only by its owner\'s release, exactly once, on the '
                       'lock word while still tail or on the successor\'s node (MCS.CLR); shared arrivals join the current tail word by a certified CAS. These are '
                       'the premises of the hand argument that no later conflicting arrival is granted first.')
    rep.rule_text = 'C11.TAIL, MCS.PUB, MCS.INH, MCS.LINK, MCS.WAIT, MCS.CLR, MCS.DRAIN per function and path class'
    rep.trusted = ['clang 14 AST/CFG', 'field abstraction of lock and node words', 'hand argument DESIGN.md C11', 'addresses fit in 47 bits']
    _locks(fx, eng, rep, ['MCSLock'], ['C11.', 'MCS.PUB', 'MCS.INH', 'MCS.LINK', 'MCS.WAIT', 'MCS.CLR', 'MCS.DRAIN'], {'MCSLock': 20})


def check_C12(fx, eng, rep, tier):
    rep.explanation = ('Queue-node life cycle as typestate: a fresh node (new / thread-local cache) is either published by the arrival write and stored in the '
                       'returned guard, or handed back to the cache (NODE.ACQ); each release path recycles the group node exactly when the abstract word it '
                       'certified shows nothing but the releaser\'s own contribution (NODE.REL, both directions: leak and premature recycle); no access to a '
                       'node after it was recycled on the same path, nodes are never deleted directly, the cache is a thread_local unique_ptr (NODE.UAR, TLS).')
    rep.rule_text = 'C12.ACQ / C12.REL / C12.UAR / C12.TLS per function and path'
    rep.trusted = ['clang 14 AST/CFG', 'field abstraction', 'protocol invariant: a member counted in the successor word keeps the successor from finishing (C01)']
    rep.assumptions = ['not decided: stale pointers held by another thread (protocol-level argument)']
    _locks(fx, eng, rep, ['MCSLock'], ['C12.'], {'MCSLock': 12})


def check_C02(fx, eng, rep, tier):
    rep.explanation = ('Necessary conditions of progress, each structural: LIVE.SPIN (every spin / wait loop re-reads the atomic word its exit tests; the spin '
                       'helper returns iff its procedure returned true; an iteration that does not exit writes nothing), LIVE.HANDOFF (every release path performs '
                       'exactly one flag-clearing write), LIVE.FREE (release deltas are the exact inverses of the acquire deltas, C01.REL / MCS.CLR; conversions return '
                       'owning guards, C07.CONV), LIVE.PUBSTORE (no plain store to a published MCS node). Eventual grant under every fair schedule as a whole is not decided.')
    rep.rule_text = 'C02.SPIN / C02.SPINFN / C02.HANDOFF / C02.PUBSTORE + C01.REL / MCS.CLR / C07.CONV'
    rep.trusted = ['clang 14 AST/CFG', 'field abstraction']
    rep.assumptions = ['liveness itself (fair schedules) is not decided; these are necessary conditions']
    _locks(fx, eng, rep, ALL_LOCKS, ['C02.', 'C01.REL', 'MCS.CLR', 'C07.CONV', 'C01.ROWS'], {'PessimisticLock': 10, 'OptimisticLock': 14, 'MCSLock': 14})
