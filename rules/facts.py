"""Fact extraction driver: compilation database from /repo's current CMakeLists.txt,
cxxfacts over the library TUs (+ a generated driver TU), loading of the JSON facts.

Nothing here executes library code: cmake is only asked to *configure* (to obtain the real
flags), ninja to print the compilation database, and cxxfacts parses.
"""
import json
import os
import shlex
import shutil
import subprocess
import sys
import tempfile
import concurrent.futures

VERIF = os.path.dirname(os.path.dirname(os.path.abspath(__file__)))
REPO = os.environ.get('VERIF_REPO', '/repo')
CXXFACTS = os.path.join(VERIF, 'tools', 'cxxfacts')
RESOURCE_DIR = '/usr/lib/llvm-14/lib/clang/14.0.6'
GUARD = 'CPP_UTILITY_VERIF'


class AnalysisBroken(Exception):
    """anchor missing / idiom not recognised / floor not met  -> exit 2, never a violation"""


def ensure_tool():
    src = os.path.join(VERIF, 'tools', 'cxxfacts.cc')
    if (not os.path.exists(CXXFACTS)) or os.path.getmtime(CXXFACTS) < os.path.getmtime(src):
        r = subprocess.run(['make', '-C', os.path.join(VERIF, 'tools')], capture_output=True, text=True)
        if r.returncode != 0:
            raise AnalysisBroken('cannot build cxxfacts: ' + r.stderr[-2000:])


DRIVER_TU = r'''
// generated driver TU: every public header, plus explicit instantiation of the member
// templates a client would instantiate (template bodies appear in the AST as a client sees them)
#include <random>
#include "dbgroup/lock/common.hpp"
#include "dbgroup/lock/pessimistic_lock.hpp"
#include "dbgroup/lock/optimistic_lock.hpp"
#include "dbgroup/lock/mcs_lock.hpp"
#include "dbgroup/random/zipf.hpp"
#include "dbgroup/thread/common.hpp"
#include "dbgroup/thread/id_manager.hpp"
#include "dbgroup/thread/epoch_guard.hpp"
#include "dbgroup/thread/epoch_manager.hpp"
namespace dbgroup::random {
#define VERIF_INST(D, T) template T D<T>::operator()<std::mt19937_64>(std::mt19937_64 &) const;
VERIF_INST(ZipfDistribution, uint32_t)
VERIF_INST(ZipfDistribution, uint64_t)
VERIF_INST(ZipfDistribution, int32_t)
VERIF_INST(ZipfDistribution, int64_t)
VERIF_INST(ApproxZipfDistribution, uint32_t)
VERIF_INST(ApproxZipfDistribution, uint64_t)
VERIF_INST(ApproxZipfDistribution, int32_t)
VERIF_INST(ApproxZipfDistribution, int64_t)
}
'''


class Facts:
    """All facts of one extraction run (several TUs)."""

    def __init__(self):
        self.tus = {}          # basename -> json
        self.functions = {}    # key -> fn json (first definition wins; inline fns appear in many TUs)
        self.fn_by_name = {}   # qualified name -> [fn]
        self.records = {}      # name -> record json
        self.constants = {}    # qualified -> int
        self.const_info = {}
        self.globals = {}
        self.flags = []
        self.defines = {}

    def add_tu(self, base, d):
        self.tus[base] = d
        for c in d['constants']:
            self.constants.setdefault(c['q'] + '@' + base, int(c['value']))
            self.const_info.setdefault(c['q'] + '@' + base, c)
        for g in d['globals']:
            self.globals.setdefault(g['q'], g)
        for r in d['records']:
            self.records.setdefault(r['name'], r)
        for f in d['functions']:
            f['tu'] = base
            if f['key'] not in self.functions:
                self.functions[f['key']] = f
                self.fn_by_name.setdefault(f['name'], []).append(f)

    def tu_constants(self, base):
        """constants visible in a TU: name (unqualified and qualified) -> value"""
        out = {}
        for c in self.tus[base]['constants']:
            out[c['q']] = int(c['value'])
            out.setdefault(c['name'], int(c['value']))
        return out

    def fn(self, name, tu=None):
        """unique function by qualified name (no parameter list)"""
        c = self.fn_by_name.get(name, [])
        if tu:
            c = [f for f in c if f['tu'] == tu] or c
        if len(c) != 1:
            raise AnalysisBroken('anchor function %s: %d definitions found' % (name, len(c)))
        return c[0]

    def fns_of_record(self, rec):
        return [f for f in self.functions.values() if f.get('record') == rec]

    def record(self, name):
        if name not in self.records:
            raise AnalysisBroken('anchor record %s not found' % name)
        return self.records[name]

    def lambdas_of(self, parent_key):
        return [f for f in self.functions.values() if f.get('parent') == parent_key]


def _compdb(scratch, extra_defs=(), cmake_defs=()):
    bdir = os.path.join(scratch, 'b')
    cmd = ['cmake', '-G', 'Ninja', '-S', REPO, '-B', bdir] + ['-D' + d for d in cmake_defs]
    r = subprocess.run(cmd, capture_output=True, text=True)
    if r.returncode != 0:
        raise AnalysisBroken('cmake configure failed: ' + (r.stderr or r.stdout)[-1500:])
    r = subprocess.run(['ninja', '-C', bdir, '-t', 'compdb'], capture_output=True, text=True)
    if r.returncode != 0:
        raise AnalysisBroken('ninja -t compdb failed: ' + r.stderr[-1500:])
    db = json.loads(r.stdout)
    out, seen, flags = [], set(), None
    for e in db:
        f = e['file']
        if not f.endswith(('.cpp', '.cc', '.cxx')) or f in seen:
            continue
        seen.add(f)
        a = shlex.split(e['command'])
        keep = [x for x in a[1:] if x.startswith(('-D', '-I', '-std=', '-U', '-isystem'))]
        if not any(x.startswith('-std=') for x in keep):
            keep.append('-std=gnu++20')
        # release builds (the baseline is RelWithDebInfo) compile assert() away: analyse what ships
        keep += ['-DNDEBUG', '-D' + GUARD] + [('-U' + d[1:]) if d.startswith('!') else ('-D' + d) for d in extra_defs]
        flags = flags or keep
        out.append({'directory': scratch, 'file': f,
                    'arguments': ['clang++'] + keep + ['-resource-dir=' + RESOURCE_DIR, '-fsyntax-only', '-w', f]})
    if not out:
        raise AnalysisBroken('compilation database has no C++ translation unit')
    # driver TU
    drv = os.path.join(scratch, 'verif_driver.cpp')
    with open(drv, 'w') as fh:
        fh.write(DRIVER_TU)
    out.append({'directory': scratch, 'file': drv,
                'arguments': ['clang++'] + flags + ['-resource-dir=' + RESOURCE_DIR, '-fsyntax-only', '-w', drv]})
    with open(os.path.join(scratch, 'compile_commands.json'), 'w') as fh:
        json.dump(out, fh, indent=1)
    shutil.rmtree(bdir, ignore_errors=True)
    return out, flags


def extract(want=None, extra_defs=(), cmake_defs=(), repo=None):
    """Run the extractor on /repo's current tree. `want`: iterable of TU basenames
    (e.g. 'mcs_lock.cpp', 'verif_driver.cpp') or None for all.  Returns Facts."""
    global REPO
    if repo:
        REPO = repo
    ensure_tool()
    scratch = tempfile.mkdtemp(prefix='cppu-verif-')
    try:
        db, flags = _compdb(scratch, extra_defs, cmake_defs)
        files = [e['file'] for e in db]
        if want is not None:
            files = [f for f in files if os.path.basename(f) in set(want)]
            missing = set(want) - {os.path.basename(f) for f in files}
            if missing:
                raise AnalysisBroken('translation units not in the build: %s' % sorted(missing))
        outdir = os.path.join(scratch, 'facts')
        os.makedirs(outdir)

        def run(f):
            r = subprocess.run([CXXFACTS, '-p', scratch, '--root', REPO, '--outdir', outdir, f],
                               capture_output=True, text=True)
            return f, r

        facts = Facts()
        facts.flags = flags
        with concurrent.futures.ThreadPoolExecutor(max_workers=16) as ex:
            for f, r in ex.map(run, files):
                base = os.path.basename(f)
                p = os.path.join(outdir, base + '.json')
                if r.returncode != 0 or not os.path.exists(p):
                    raise AnalysisBroken('cxxfacts failed on %s: %s' % (f, r.stderr[-1500:]))
                with open(p) as fh:
                    d = json.load(fh)
                if d.get('errors'):
                    raise AnalysisBroken('%s does not compile with clang: %s' % (f, r.stderr[-1500:]))
                facts.add_tu(base, d)
        return facts
    finally:
        shutil.rmtree(scratch, ignore_errors=True)


if __name__ == '__main__':
    f = extract()
    print(len(f.functions), 'functions;', len(f.records), 'records; TUs:', sorted(f.tus))
